"""
Stream `pseudo` (C03): every pseudo-operation as a whole, from chosen pre-states, on the real code
(parse -> substitute label -> convert -> execute the expansion) against Spec.pseudo (herad `pseudo`).
"""
import random

from . import proto, isa
from .proto import w_list, w_vm

REGN = ["R%d" % i for i in range(16)]
BRS = ["BR", "BL", "BGE", "BLE", "BG", "BULE", "BUG", "BZ", "BNZ", "BC", "BNC", "BS", "BNS", "BV", "BNV"]


def gen_case(rng):
    k = rng.random()
    r = lambda: rng.choice([0, 1, 2, 5, 11, 12, 13, 14, 15, rng.randint(0, 15)])  # noqa
    v16 = lambda: rng.choice(isa.BOUNDARY + [-1, -2, -128, -129, -32768, 255, 256, 0x1234, 0xFEDC, rng.randint(-32768, 65535)])  # noqa
    if k < 0.18:
        return "SET", [r(), v16()]
    if k < 0.3:
        return "SETRF", [r(), v16()]
    if k < 0.38:
        return "MOVE", [r(), r()]
    if k < 0.48:
        return "CMP", [r(), r()]
    if k < 0.56:
        return "NEG", [r(), r()]
    if k < 0.64:
        return "NOT", [r(), r()]
    if k < 0.7:
        return "FLAGS", [r()]
    if k < 0.78:
        return rng.choice(["CON", "COFF", "CBON", "CCBOFF", "HALT", "NOP"]), []
    if k < 0.92:
        return rng.choice(BRS), [rng.choice([0, 1, 255, 256, 1000, 0x7FFF, 0x8000, 0xFFFF, rng.randint(0, 65535)])]
    return "CALL", [r(), rng.choice([0, 5, 300, 0x8000, 0xFFFF, rng.randint(0, 65535)])]


def render(name, args):
    if name in BRS:
        return "{}(lbl)".format(name), args[0]
    if name == "CALL":
        return "CALL(R{}, lbl)".format(args[0]), args[1]
    if name in ("SET", "SETRF"):
        return "{}(R{}, {})".format(name, args[0], args[1]), None
    return "{}({})".format(name, ", ".join("R%d" % a for a in args)), None


def real_run(name, args, pre):
    import hera.parser as P
    import hera.checker as C
    import hera.data as D
    text, lbl = render(name, args)
    ops, msgs = P.parse(text)
    if msgs.errors or len(ops) != 1:
        return None, "parse"
    op = ops[0]
    tab = {"lbl": D.Label(lbl)} if lbl is not None else {}
    errs = op.typecheck(tab).errors
    if errs:
        return None, "typecheck: " + errs[0][0]
    op = C.substitute_label(op, tab)
    code = op.convert()
    vm = isa.mk_vm(pre)
    base = vm.pc
    exc = None
    with proto.Capture() as cap:
        try:
            steps = 0
            while not vm.halted and 0 <= vm.pc - base < len(code) and steps < 10:
                code[vm.pc - base].execute(vm)
                steps += 1
        except Exception as e:  # noqa
            exc = type(e).__name__
        cap.take()
    return (vm, exc, len(code)), None


def check(seed, n):
    rng = random.Random(seed)
    reqs, metas = [], []
    violations = []
    dist = {}
    for _ in range(n):
        name, args = gen_case(rng)
        pre = isa.gen_state(rng)
        pre["pc"] = rng.choice([0, 10, 100, 4000, 65000])
        if name in BRS or name == "CALL":
            lbl = args[-1]
            if pre["pc"] <= lbl < pre["pc"] + 4:
                continue  # label inside the expansion itself: not a meaningful single-op experiment
        if name == "NOT" and args[1] == 11:
            continue  # documented: don't use Rt with NOT (the checker warns)
        if name == "CALL" and args[0] in (13,):
            continue  # CALL(R13, label): aliased operands, left open
        res, why = real_run(name, args, pre)
        if res is None:
            violations.append({"property": "C03", "stream": "pseudo", "sig": name + ":rejected", "case": {"op": name, "args": args},
                               "what": "{}{} was not accepted: {}".format(name, tuple(args), why)})
            continue
        dist[name] = dist.get(name, 0) + 1
        case = {"op": name, "args": args, "pre": pre}
        proto.sample("pseudo", {"op": name, "args": args, "flags": pre.get("flags")})
        pre_vm = isa.mk_vm(pre)
        reqs.append("pseudo {} {} {}".format(name, w_list(args), w_vm(pre_vm, as_input=True)))
        metas.append((case, res, pre_vm))
    ans = proto.run_herad(reqs)
    for (case, (vm, exc, ncode), pre_vm), a in zip(metas, ans):
        name = case["op"]
        if exc:
            violations.append({"property": "C03", "stream": "pseudo", "sig": name + ":exception", "case": case,
                               "what": "{}{} raised {}".format(name, tuple(case["args"]), exc)})
            continue
        if not a.startswith("ok "):
            violations.append({"property": "C03", "stream": "pseudo", "sig": name + ":spec", "case": case, "what": "spec driver: " + a})
            continue
        vals = [int(t) for t in a.split()[1:]]
        sregs, sflags, spc, shalt = vals[:16], vals[16:21], vals[21], vals[22]
        rflags = [int(vm.flag_sign), int(vm.flag_zero), int(vm.flag_overflow), int(vm.flag_carry), int(vm.flag_carry_block)]
        bad = None
        if list(vm.registers) != sregs:
            k = [i for i in range(16) if vm.registers[i] != sregs[i]][0]
            bad = "R{} = {} but the documented effect gives {}".format(k, vm.registers[k], sregs[k])
        elif rflags != sflags:
            bad = "flags (s,z,v,c,cb) = {} but the documented effect gives {}".format(rflags, sflags)
        elif vm.pc != spc:
            bad = "pc = {} but the documented effect gives {}".format(vm.pc, spc)
        elif int(vm.halted) != shalt:
            bad = "halted = {} but the documented effect gives {}".format(vm.halted, shalt)
        elif vm.memory != pre_vm.memory:
            bad = "memory changed"
        if bad:
            violations.append({"property": "C03", "stream": "pseudo", "sig": name + ":" + bad.split(" ")[0].rstrip("0123456789"), "case": case,
                               "what": "{}{}: {}".format(name, tuple(case["args"]), bad)})
    return {"evaluations": len(metas), "violations": violations, "disagreements": [], "distribution": dist,
            "distinct": len({repr(m) for m in metas})}
