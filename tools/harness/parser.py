"""
Stream for C07: the real parser (`hera.parser.parse`: conditional compilation, lexer, `Parser.match_program`) against the
Lean model (herad `parse`: `Ifdef.evaluateP`, `Lex.lexAll`, `Parse.parseTokens`) on valid, damaged and random ASCII texts:
the operations (name, operand tokens, position), the error messages and the warnings, each with line and column. Includes
are run in an empty directory, so every quoted include fails; whatever message it fails with is normalised to `<include>`
(what an include contributes is the file system's business, not the parser model's). The model's `stuck` marker - a loop
of the parser that makes no progress - never appears in a real result (Props/C07c proves it unreachable).
"""
import os
import random
import shutil
import signal
import tempfile

from . import frontfuzz, proto
from .dbg import Hang, _alarm

LEXER_WARNINGS = ("invalid hex escape", "invalid octal escape", "unrecognized backslash escape")
INCLUDE_ERRORS = ('file "', "could not open file", "permission denied to open file", "non-ASCII byte in file", "recursive include")


def w_tok(t):
    from hera.data import Token
    if t.type == Token.INT:
        return "I {}".format(t.value)
    if t.type == Token.REGISTER:
        return "R {}".format(t.value)
    if t.type == Token.STRING:
        return "S {}".format(proto.w_str(t.value))
    return "Y {}".format(proto.w_str(str(t.value)))


def real_parse(text, d, warn_octal=True):
    """canonical line of the real parser's result, or 'exception <name>' / 'hang'"""
    import hera.parser as P
    import hera.utils as U
    from . import progrun
    st = progrun.make_settings()
    st.warn_octal_on = warn_octal
    old = signal.signal(signal.SIGALRM, _alarm)
    signal.setitimer(signal.ITIMER_REAL, 10)
    try:
        with proto.Capture() as cap:
            try:
                ops, msgs = P.parse(text, path=U.Path(os.path.join(d, "main.hera")), settings=st)
            finally:
                cap.take()
    except Hang:
        return "hang"
    except RecursionError:
        return "exception RecursionError"
    except Exception as e:  # noqa
        return "exception " + type(e).__name__
    finally:
        signal.setitimer(signal.ITIMER_REAL, 0)
        signal.signal(signal.SIGALRM, old)
    items = ["O {} {} {} {}".format(proto.w_str(type(op).__name__), proto.w_list(w_tok(t) for t in op.tokens), op.loc.line, op.loc.column) for op in ops]

    def norm(m):
        return "<include>" if m.startswith(INCLUDE_ERRORS) else m
    errs = ["{} {} {}".format(proto.w_str(norm(m)), loc.line, loc.column) for m, loc in msgs.errors]
    warns = ["{} {} {}".format(proto.w_str(m), loc.line, loc.column) for m, loc in msgs.warnings if m not in LEXER_WARNINGS]
    real_parse.last_errors = len(errs)
    return "0 {} {} {}".format(proto.w_list(items), proto.w_list(errs), proto.w_list(warns))


def strip_includes(ans):
    """the model lists include items (IS / IA); the real parser's operation list has nothing for a failing include"""
    parts = ans.split(" ")
    stuck, n = parts[0], int(parts[1])
    i, kept = 2, []
    for _ in range(n):
        if parts[i] == "O":
            ln = int(parts[i + 1])
            j = i + 2 + ln
            na = int(parts[j])
            j += 1
            for _a in range(na):
                if parts[j] in ("I", "R"):
                    j += 2
                else:
                    j += 2 + int(parts[j + 1])
            j += 2
            kept.append(" ".join(parts[i:j]))
            i = j
        else:
            ln = int(parts[i + 1])
            i = i + 2 + ln + 2
    return " ".join([stuck, str(len(kept))] + kept + parts[i:])


def gen_text(rng, seed):
    k = rng.random()
    if k < 0.45:
        return frontfuzz.gen_text(rng, seed)
    if k < 0.6:
        from . import lexer
        return lexer.gen_text(rng, seed)
    n = rng.choice([1, 2, 3, 6, 12])
    pool = ["SET(R1, 5)", "SET(R1, -5)", "SET(R1, - 5)", "SET(R1, -x)", "SET(R1,", "SET(R1 5)", "SET(R1, 5", "SET R1", "SET(,)", "SET()", "SET(R1,,5)",
            "SET(R1, 5) ;", "SET(R1, 5);;", "INC(R17, 1)", "INC(r1x, 1)", "FOO(1)", "foo()", "SET(R1, 08)", "SET(R1, 017)", "SET(R1, 0x1G)", "SET(R1, 0b)",
            "SET(R1, 0o8)", "SET(R1, 00)", "SET(R1, 'a')", "SET(R1, 'ab')", "SET(R1, \"s\")", "LP_STRING(\"a", "SET(R1, 1) SET(R2, 2)", "void HERA_main() {",
            "void HERA_main {", "void x", "void (", "}", "} }", "{", "#include", "#include x", "#include \"nosuch.hera\"", "#include <HERA.h>", "#include <nolib.hera>",
            "#include \"main.hera\"", "#include <", "#ifdef HERA_PY", "#ifdef HERA_C", "#else", "#endif", "LABEL(a)", "BR(a)", "DSKIP(5)", "@", "$", ")", "(", ",",
            "SET(R1, R" + "9" * 30 + ")", "SET(R1, " + "9" * 4301 + ")", "SET(R1, 0" + "7" * 4400 + ")", "print_reg(R1)", "SET(R1, 5) // c", "/* c */ SET(R1, 1)"]
    return "".join(rng.choice(pool) + rng.choice(["\n", "\n", " ", ""]) for _ in range(n))


def check(seed, n):
    rng = random.Random(seed)
    d = tempfile.mkdtemp(prefix="hera_verif_parse_")
    reqs, reals, cases = [], [], []
    try:
        for k in range(n):
            text = gen_text(rng, seed * 7411 + k)
            if any(ord(c) > 127 for c in text) or "<Tiger" in text or len(text) > 20000:
                continue
            wo = k % 5 != 0
            real_parse.last_errors = 0
            if sum(1 for r in reals if r == "hang") > 3:
                break        # enough texts on which the parser does not return
            reals.append(real_parse(text, d, wo))
            reqs.append("parse {} {}".format(proto.w_str(text), 1 if wo else 0))
            cases.append({"text": text, "warn_octal": wo, "nerrors": real_parse.last_errors})
            if k % 500 == 0:
                proto.sample("parser", {"text": text[:200]})
    finally:
        shutil.rmtree(d, ignore_errors=True)
    answers = proto.run_herad(reqs)
    disagreements, violations = [], []
    dist = {"with_ops": 0, "with_errors": 0, "clean": 0}
    for case, real, ans in zip(cases, reals, answers):
        if real.startswith(("exception", "hang")):
            violations.append({"property": "C07", "stream": "parser", "sig": "parser:" + real, "case": {"text": case["text"], "mode": ""},
                               "what": "the parser: {} on {!r}".format(real, case["text"][:60])})
            continue
        model = strip_includes(ans)
        dist["with_ops"] += " O " in real
        dist["with_errors"] += case.get("nerrors", 0) > 0
        dist["clean"] += case.get("nerrors", 0) == 0 and " O " in real
        if model != real:
            disagreements.append({"stream": "parser", "case": case, "model": model[:600], "impl": real[:600]})
    return {"evaluations": len(cases), "violations": violations, "disagreements": disagreements, "distinct": len({c["text"] for c in cases}),
            "distribution": dist}
