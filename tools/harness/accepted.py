"""
Stream for C08: every program the checker accepts (operand grid, rule programs, generated programs, boundary
programs) is pushed through everything that can happen to it afterwards - listing, obfuscated listing, assembling,
running (throttled) and debugging start-up - watching for internal errors, and every instruction it expands to is
checked to fit the field it is encoded in (re-decoding the emitted word gives the same operation).
"""
import io

from . import chk, proto, progrun

BOUNDARY_PROGRAMS = [
    "INC(R1, 64)\nDEC(R2, 64)\nINC(R1,1)\n", "SETLO(R1, -128)\nSETLO(R1, 255)\nSETHI(R1, -128)\nSETHI(R1, 255)\n",
    "BRR(127)\n", "BRR(-128)\n", "BRR(255)\nNOP()\n", "BRR(128)\n", "FON(31)\nFOFF(31)\nFSET5(31)\nFSET4(15)\n",
    "LOAD(R1, 31, R2)\nSTORE(R1, 31, R2)\n", "INTEGER(-1)\nINTEGER(300)\nINTEGER(-32768)\nINTEGER(65535)\nSET(R1,1)\n",
    "LP_STRING(\"" + "x" * 300 + "\")\nSET(R1, 1)\n", "DSKIP(0)\nDSKIP(300)\nSET(R1,1)\n", "SET(R1, -32768)\nSET(R2, 65535)\nSETRF(R3, -1)\n",
    "OPCODE(0)\nOPCODE(0xffff)\n", "OPCODE(0x317f)\nOPCODE(0x31bf)\nOPCODE(0x3d6f)\n", "OPCODE(65535)\n", "OPCODE(0x0000)\n",
    "CONSTANT(c, 255)\nSETLO(R1, c)\nBRR(c)\n", "CONSTANT(c, -128)\nSETLO(R1, c)\nBRR(c)\n", "CONSTANT(c, 64)\nINC(R1, c)\n",
    "CONSTANT(c, 65535)\nOPCODE(c)\nSET(R1, c)\n", "CALL(R12, f)\nHALT()\nLABEL(f)\nRETURN(R12, R13)\n",
    "print(\"a\\tb\")\nprintln(\"\")\nprint_reg(R0)\n", "SET(R1, 'a')\nSET(R2, '\\n')\n", "NOT(R1, Rt)\n",
    "DLABEL(d)\nLP_STRING(\"hi\\n\")\nSET(R1, d)\nLOAD(R2, 0, R1)\n", "LABEL(a)\nBR(a)\n",
    "DLABEL(d)\nLP_STRING(\"\\777\\400\\377\\x80\")\nSET(R1, d)\nLOAD(R2, 1, R1)\n", "CONSTANT(w, 0x0123)\nOPCODE(w)\n",
    "CONSTANT(m, 64)\nCONSTANT(n, m)\nINC(R1, n)\nDSKIP(n)\n", "CONSTANT(w, 0x3180)\nCONSTANT(v, w)\nOPCODE(v)\n",
]


def exercise(text, mode, big_stack=False, no_debug_ops=False):
    """Returns (accepted, problem or None)."""
    import hera.main as M
    import hera.assembler as A
    import hera.vm as V
    import hera.debugger as DBG
    import hera.op as O
    st = progrun.make_settings(mode=mode, big_stack=big_stack, no_debug_ops=no_debug_ops)
    res, oplist, prog, pm, exc = chk.real_check(text, st)
    if exc:
        return False, "front end raised " + exc
    if prog is None:
        return False, None
    problem = None
    with proto.Capture() as cap:
        try:
            stage = "listing"
            for d in prog.data:
                str(d)
            for op in prog.code:
                str(op)
            if mode in ("assemble", "preprocess"):
                stage = "assembling"
                code, data = A.assemble(prog)
                st2 = progrun.make_settings(mode=mode, big_stack=big_stack)
                st2.stdout = True
                A.assemble_and_print(prog, st2)
                stage = "field check"
                for op, b in zip([o for o in prog.code if o.assemble() is not None], code):
                    if op.name == "OPCODE":
                        continue
                    errs = op.typecheck({}).errors
                    if errs:
                        problem = "{} has an operand outside its field: {}".format(op, errs[0][0])
                        break
                    w = (b[0] << 8) + b[1]
                    back = O.disassemble(w)
                    canon = [a + 256 if (isinstance(a, int) and a < 0) else a for a in op.args]
                    if back.name != op.name or list(back.args) != canon:
                        problem = "{} is emitted as 0x{:04x}, which is {}".format(op, w, back)
                        break
            elif any(o.name == "__EVAL" for o in prog.code):
                pass  # user __eval: arbitrary Python, reported as a program error by design (outside the property)
            else:
                stage = "running"
                vm = V.VirtualMachine(progrun.make_settings(mode=mode, big_stack=big_stack, throttle=400))
                vm.run(prog)
                if mode == "debug":
                    stage = "debugger start-up"
                    DBG.Debugger(prog, st)
        except SystemExit as e:
            problem = "{}: SystemExit({})".format(stage, e.code)
        except Exception as e:  # noqa
            problem = "{} raised {}: {}".format(stage, type(e).__name__, str(e)[:80])
        cap.take()
    return True, problem


def check(items):
    violations = []
    evals = accepted = 0
    for it in items:
        ok, problem = exercise(it["text"], it.get("mode", ""), it.get("big_stack", False), it.get("no_debug_ops", False))
        if ok:
            proto.sample("accepted", {"text": it["text"][:300], "mode": it.get("mode", "")})
        evals += 1
        accepted += 1 if ok else 0
        if problem:
            last = it["text"].strip().split("\n")[-1]
            violations.append({"property": "C08", "stream": "accepted", "sig": problem.split(" ")[0] + ":" + last.split("(")[0],
                               "case": it, "what": "accepted program goes wrong later ({} mode): {}".format(it.get("mode") or "run", problem)})
    return {"evaluations": evals, "violations": violations, "disagreements": [], "accepted": accepted}


def boundary_items():
    return [{"text": t, "mode": m} for t in BOUNDARY_PROGRAMS for m in ["", "debug", "assemble", "preprocess"]]


# ---------------------------------------------------------------------------------------------------------
# relative branches to labels around the limits of the 8-bit displacement: an accepted branch must reach its label
# (nothing re-interpreted between the source and the bits), in every mode that runs, and encode that displacement

def reach_programs():
    out = []
    for d in (-130, -129, -128, -127, -2, 1, 2, 126, 127, 128, 129, 130):
        for br in ("BRR", "BZR", "BNCR"):
            pre = "CON()\n" if br == "BNCR" else ("CMP(R0, R0)\n" if br == "BZR" else "")
            cond_pre = {"BRR": "", "BZR": "CMP(R0, R0)\n", "BNCR": "COFF()\n"}[br]
            if d > 0:
                text = cond_pre + "{}(lab)\n".format(br) + "NOP()\n" * (d - 1) + "LABEL(lab)\nSET(R10, 77)\nHALT()\n"
            else:
                # backwards: enter over a forward jump, the label block ends with HALT
                body = "NOP()\n" * (-d - 3)
                text = "BR(start)\nLABEL(lab)\nSET(R10, 77)\nHALT()\n" + body + "LABEL(start)\n" + cond_pre + "{}(lab)\n".format(br)
            out.append((text, d, br))
    return out


def check_reach():
    import hera.vm as V
    violations, evals = [], 0
    for text, d, br in reach_programs():
        for mode in ("", "debug", "assemble", "preprocess"):
            st = progrun.make_settings(mode=mode)
            res, oplist, prog, pm, exc = chk.real_check(text, st)
            evals += 1
            if prog is None:
                continue
            case = {"text": text, "mode": mode}
            brs = [(i, o) for i, o in enumerate(prog.code) if o.name == br and o.original is not None and o.original.name == br]
            labs = [int(v) for k, v in prog.symbol_table.items() if k == "lab"]
            if brs and labs:
                i, o = brs[-1]
                disp = o.args[0]
                sdisp = disp - 256 if disp >= 128 else disp
                if i + sdisp != labs[0]:
                    violations.append({"property": "C08", "stream": "reach", "sig": "reach:encoded", "case": case,
                                       "what": "accepted {}(lab) at {} is encoded with displacement {} (= {} as a signed byte) but the label is at {}".format(
                                           br, i, disp, sdisp, labs[0])})
                    continue
            if mode in ("", "debug"):
                vm = V.VirtualMachine(progrun.make_settings(mode=mode, throttle=2000))
                with proto.Capture() as cap:
                    try:
                        vm.run(prog)
                    except BaseException as e:  # noqa
                        cap.take()
                        violations.append({"property": "C08", "stream": "reach", "sig": "reach:raise", "case": case,
                                           "what": "accepted program raised " + type(e).__name__})
                        continue
                    cap.take()
                if vm.registers[10] != 77:
                    violations.append({"property": "C08", "stream": "reach", "sig": "reach:run", "case": case,
                                       "what": "accepted {}(lab) over {} instructions never reaches its label (R10 = {}, pc = {})".format(
                                           br, d, vm.registers[10], vm.pc)})
    return {"evaluations": evals, "violations": violations, "disagreements": [], "accepted": 0}
