"""
Stream `prog`: whole programs through the real front end and the real VirtualMachine, compared
with the run-loop model (herad `run`) and watched by the well-formedness monitor after every
executed operation.
"""
import copy

from . import proto, proggen
from .isa import wf_violation
from .proto import w_list, w_val, w_vm


def hera():
    import hera.data as D
    import hera.loader as L
    import hera.vm as V
    import hera.op as O
    return D, L, V, O


def make_settings(mode="", big_stack=False, init=None, warn_return_off=False, throttle=False, no_debug_ops=False):
    D, L, V, O = hera()
    st = D.Settings()
    st.color = False
    st.mode = mode
    st.allow_interrupts = mode in ("assemble", "preprocess")
    if big_stack:
        st.data_start = 0xC167
    st.init = list(init or [])
    st.warn_return_on = not warn_return_off
    st.throttle = throttle
    st.no_debug_ops = no_debug_ops
    return st


def load(text, settings):
    """Parse + check with the real front end. Returns (program or None, stdout, stderr writes, exc)."""
    D, L, V, O = hera()
    prog, exc = None, None
    with proto.Capture() as cap:
        try:
            prog = L.load_program(text, settings)
        except SystemExit:
            exc = "SystemExit"
        except Exception as e:  # noqa
            exc = type(e).__name__ + ": " + str(e)
        out, errs = cap.take()
    return prog, out, errs, exc


def w_op(op):
    name = op.__class__.__name__
    return "{} {} {}".format(name, w_list(w_val(a) for a in op.args), proto.loc_id(op.loc))


def w_program(prog):
    return "{} {}".format(w_list(w_op(o) for o in prog.data), w_list(w_op(o) for o in prog.code))


def monitor_run(prog, settings, max_steps):
    """Re-implementation of the unthrottled loop around the real ops with the WF monitor after every
    operation. Returns dict(vm, steps, ended, problem, stdout, diags)."""
    D, L, V, O = hera()
    vm = V.VirtualMachine(settings)
    problem = None
    steps = 0
    with proto.Capture() as cap:
        try:
            vm.reset()
            w = wf_violation(vm)
            if w:
                problem = "after reset: " + w
            for d in prog.data:
                d.execute(vm)
                w = wf_violation(vm)
                if w and not problem:
                    problem = "after data statement {}: {}".format(d, w)
            while not problem and not vm.halted and 0 <= vm.pc < len(prog.code) and steps < max_steps:
                op = prog.code[vm.pc]
                vm.location = op.loc
                pc = vm.pc
                op.execute(vm)
                steps += 1
                w = wf_violation(vm)
                if w:
                    problem = "after step {} ({} at {}): {}".format(steps, op, pc, w)
        except SystemExit:
            problem = problem or "SystemExit escaped from an operation"
        except Exception as e:  # noqa
            problem = "internal error {}: {} at pc {}".format(type(e).__name__, e, vm.pc)
        out, errs = cap.take()
    ended = vm.halted or not (0 <= vm.pc < len(prog.code))
    return {"vm": vm, "steps": steps, "ended": ended, "problem": problem, "stdout": out,
            "diags": proto.diags_of(errs)}


def real_run(prog, settings):
    """The real VirtualMachine.run. Returns (vm, stdout, diags, exc)."""
    D, L, V, O = hera()
    vm = V.VirtualMachine(settings)
    exc = None
    with proto.Capture() as cap:
        try:
            vm.run(prog)
        except SystemExit:
            exc = "SystemExit"
        except Exception as e:  # noqa
            exc = type(e).__name__
        out, errs = cap.take()
    return vm, out, proto.diags_of(errs), exc


def has_eval(prog):
    return any(o.__class__.__name__ == "__EVAL" for o in prog.code)


def check_programs(items, max_steps=3000):
    """items: list of dict(text, opts). Runs monitor + real run + model; returns result dict."""
    D, L, V, O = hera()
    disagreements, violations = [], []
    reqs, metas = [], []
    stats = {"accepted": 0, "rejected": 0, "ended": 0, "cut": 0, "steps": 0}
    for it in items:
        opts = it.get("opts", {})
        st = make_settings(**opts)
        prog, out, errs, exc = load(it["text"], st)
        if prog is None:
            stats["rejected"] += 1
            if exc and exc != "SystemExit":
                violations.append({"property": "C07", "stream": "prog", "case": it, "sig": "frontend:" + exc.split(":")[0],
                                   "what": "front end raised " + exc})
            continue
        stats["accepted"] += 1
        st_run = make_settings(**opts)
        mon = monitor_run(prog, st_run, max_steps)
        stats["steps"] += mon["steps"]
        if mon["problem"]:
            violations.append({"property": "C02", "stream": "prog", "case": it, "sig": "run:" + mon["problem"].split(":")[0][:40],
                               "what": mon["problem"]})
            continue
        if not mon["ended"]:
            stats["cut"] += 1
            continue
        stats["ended"] += 1
        st2 = make_settings(**opts)
        vm, rout, rdiags, rexc = real_run(prog, st2)
        real_line = "err " + rexc if rexc else "ok 1 {} {}".format("1" if wf_violation(vm) is None else "0", w_vm(vm, rout, rdiags))
        if rexc:
            violations.append({"property": "C02", "stream": "prog", "case": it, "sig": "run:exception",
                               "what": "VirtualMachine.run raised " + rexc})
        if opts.get("throttle") not in (None, False):
            mon["vm"].op_count = mon["steps"]
        # the real run must agree with the monitored step-by-step run
        if not rexc and (w_vm(vm, rout, rdiags) != w_vm(mon["vm"], mon["stdout"], mon["diags"])):
            violations.append({"property": "C02", "stream": "prog", "case": it, "sig": "run:loop-differs",
                               "what": "VirtualMachine.run ends in a different state than executing its operations one by one "
                                       "(an instruction was fetched from outside the program or the loop guard differs)"})
        if has_eval(prog):
            continue
        st3 = make_settings(**opts)
        pre = V.VirtualMachine(st3)
        reqs.append("run {} {} {}".format(mon["steps"] + 5, w_program(prog), w_vm(pre, as_input=True)))
        metas.append((it, real_line))
    answers = proto.run_herad(reqs)
    for (it, real_line), ans in zip(metas, answers):
        if ans != real_line:
            disagreements.append({"stream": "prog", "case": it, "model": ans[:3000], "impl": real_line[:3000]})
    return {"evaluations": len(items), "disagreements": disagreements, "violations": violations, "stats": stats}


def boundary_data_items():
    """data segments that end just below, at and beyond the last cell 0xFFFF, for both data-segment starts (default and
    --big-stack): whatever the checker accepts must stay inside the 2^16 cells when the data statements are executed"""
    items = []
    for big in (False, True):
        cap = 65536 - (0xC167 if big else 0xC001)
        for n in sorted({cap - 6, cap - 5, cap - 4, cap - 1, cap, cap + 1, cap + 300, 65536 - 0xC001 - 5, 65536 - 0xC001 - 1}):
            for tail in ('INTEGER(7)\nLP_STRING("abc")\n', "INTEGER(7)\n", 'LP_STRING("abcdefgh")\n', "DSKIP(3)\nINTEGER(1)\n"):
                for use in ("DLABEL(e)\nSET(R1, e)\nLOAD(R2, 0, R1)\n", "SET(R1, 1)\n", "DLABEL(e)\nSET(R1, 1)\n"):
                    text = "DSKIP({})\n{}{}".format(n, tail, use)
                    items.append({"text": text, "opts": {"big_stack": True} if big else {}, "features": ["boundary-data"], "gen_seed": 0})
    return items


def gen_items(seed, n, **kw):
    items = []
    for k in range(n):
        s = seed * 1000003 + k
        wild = (k % 3 == 0)
        kw.setdefault("same_line", True)
        text, feats = proggen.generate(s, wild=wild, **kw)
        opts = {}
        if k % 4 == 1:
            opts["big_stack"] = True
        if k % 5 == 2:
            opts["init"] = [(1, 5), (2, 65535), (15, 0xC001)]
        if k % 7 == 3:
            opts["warn_return_off"] = True
        if k % 6 == 0:
            # the throttled loop is a second copy of the run loop: same guard, also for wild control flow
            opts["throttle"] = 100000
        items.append({"text": text, "opts": opts, "features": feats, "gen_seed": s})
    return items
