"""
Stream for C07: arbitrary and near-valid text through the real front end (lexing, conditional compilation, parsing,
type-checking, preprocessing) in every mode, with a watchdog. Oracle: it returns - with diagnostics - and never raises
or hangs. Files for #include live in a scratch directory.
"""
import os
import random
import shutil
import signal
import tempfile

from . import proggen, progrun, proto
from .dbg import Hang, _alarm

DANGEROUS = ['"', "'", "\\", "/*", "*/", "//", "#include", "#ifdef", "#else", "#endif", "#ifndef X", "<", ">", "(", ")", ",", ":", ";", "{", "}",
             "\x00", "\x01", "\x7f", "\t", "\r", "\n", "\x0b", "\x0c", "\x1c", "\x85", " ", "-", "+", "0x", "0b", "0o", "09", "1_0", "R16", "Rt",
             "\\x", "\\x4", "\\7", "\\777", "\\9", "@", "$", "`", "'\\", "'ab'", "''", '""', "<>", "#", "##include", "#include<", "0xg",
             "99999999999999999999", "-0", "--1", "PC_ret", "SET", "LABEL", "CONSTANT(", "DSKIP(", "OPCODE(", "__eval(", "print("]
INCLUDES = ['#include "inc.hera"', '#include "missing.hera"', '#include "adir"', '#include "a\\0b"', '#include ""', "#include <HERA.h>",
            "#include <Tiger-stdlib-stack.hera>", "#include <nosuch>", "#include <", '#include "self.hera"', "#include 5", "#include",
            '#include "../x"', '#include "inc.hera" "inc.hera"', '#include "bin.hera"']
OPS = None


def op_names():
    global OPS
    if OPS is None:
        import hera.op as O
        OPS = sorted(O.name_to_class)
    return OPS


def setup_dir():
    d = tempfile.mkdtemp(prefix="hera_verif_ff_")
    with open(os.path.join(d, "inc.hera"), "w") as f:
        f.write("SET(R2, 2)\n")
    with open(os.path.join(d, "self.hera"), "w") as f:
        f.write('#include "self.hera"\n')
    with open(os.path.join(d, "bin.hera"), "wb") as f:
        f.write(b"SET(R1, 1)\n\xff\xfe\x00")
    os.makedirs(os.path.join(d, "adir"))
    return d


def gen_text(rng, seed):
    k = rng.random()
    if k < 0.04:
        from . import ifdefs
        return ifdefs.soup(rng)        # directive lines in any order and balance, through the whole front end
    if k < 0.25:
        n = rng.choice([0, 1, 2, 5, 20, 80])
        pool = rng.choice(["ascii", "ascii", "punct", "ctrl"])
        if pool == "ascii":
            return "".join(chr(rng.randint(0, 127)) for _ in range(n))
        if pool == "punct":
            return "".join(rng.choice("\"'\\/*#<>(),:;{}-+@ \n\tR0x9a_") for _ in range(n))
        return "".join(chr(rng.choice(list(range(0, 32)) + [127])) for _ in range(n))
    if k < 0.45:
        # one operation of every name with operands of arbitrary kinds and counts
        name = rng.choice(op_names() + ["FOO", "set", "Set"])
        args = [rng.choice(["R1", "R16", "R", "r", "Rx", "R-1", "r_", "5", "-5", "70000", '"s"', "'c'", "lbl", "", "0x", "(", "R1 R2", "1,", "@", '"unclosed', "<b>",
                            "99999999999999999999", "'\\n'", "'ab'", "__eval", "-", "- 5", "5 +", "\x00"])
                for _ in range(rng.choice([0, 1, 2, 3, 4, 6]))]
        sep = rng.choice([", ", ",", " , ", " ", ",,"])
        close = rng.choice([")", ")", ")", "", "))", ") )"])
        return rng.choice(["", "LABEL(lbl)\n", "CONSTANT(lbl, 5)\n"]) + name + rng.choice(["(", "(", " (", ""]) + sep.join(args) + close + "\n"
    # a valid program damaged in a few places
    text, feats = proggen.generate(seed, size=rng.choice([3, 6, 10]), wild=False, same_line=True, strings_wide=True)
    if rng.random() < 0.4:
        lines = text.split("\n")
        lines.insert(rng.randrange(len(lines) + 1), rng.choice(INCLUDES))
        text = "\n".join(lines)
    for _ in range(rng.choice([0, 1, 1, 2, 4])):
        if not text:
            break
        i = rng.randrange(len(text) + 1)
        j = rng.random()
        if j < 0.35:
            text = text[:i] + rng.choice(DANGEROUS) + text[i:]
        elif j < 0.6:
            text = text[:i] + text[i + rng.choice([1, 1, 2, 5]):]
        elif j < 0.8:
            text = text[:i]              # truncation
        else:
            k2 = rng.randrange(len(text) + 1)
            text = text[:min(i, k2)] + text[max(i, k2):]
    return text


# statements that declare or use the symbols N and M with operands of every kind: all ordered pairs are run
SYMBOL_STATEMENTS = [
    "CONSTANT(N, 5)", "CONSTANT(N, M)", "CONSTANT(N, N)", 'CONSTANT(N, "s")', "CONSTANT(N, R1)", "CONSTANT(N, 70000)", "CONSTANT(N, -1)",
    "CONSTANT(N)", "CONSTANT(N, 1, 2)", "CONSTANT(5, 5)", "CONSTANT(M, N)", "CONSTANT(M, 3)",
    "DLABEL(N)", "DLABEL(M)", "LABEL(N)", "LABEL(M)", "LABEL(N, M)", "DLABEL()",
    "DSKIP(N)", "DSKIP(M)", 'DSKIP("s")', "DSKIP(-1)", "DSKIP(70000)", "DSKIP(N, M)", "INTEGER(N)", "INTEGER(M)", "LP_STRING(N)",
    'LP_STRING("text")', "SET(R1, N)", "SET(R1, M)", "SET(N, 1)", "INC(R1, N)", "SETLO(R1, N)", "BR(N)", "BRR(N)", "BRR(M)", "CALL(R12, N)",
    "OPCODE(N)", "OPCODE(M)", "print_reg(N)", "print(N)", "ADD(N, M, R1)", "N(1)", "FOO(N)", "#include N", "NOP()",
    "LABEL(r)", "CONSTANT(R, 5)", "SET(R, 1)", "BR(r)", "DLABEL(R)",
]


def long_and_large():
    """digit runs beyond what int() converts (4300 digits) in every numeric position; programs with more instructions than
    16-bit addresses, with a label after them used in every way"""
    for n in (4299, 4301, 6000):
        d = "1" * n
        for t in ("SET(R{}, 1)", "SET(R1, {})", "SET(R1, -{})", "SET(R1, 0x{})", "SET(R1, 0b{})", "SET(R1, 0o{})", "INTEGER({})", "DSKIP({})",
                  "LABEL(a{})", "SET(R1, a{})", "OPCODE({})", "BRR({})", "CONSTANT(N, {})", "LP_STRING(\"\\x{}\")", "SET(R1, '\\{}')",
                  "#include \"{}\"", "print_reg(r{})", "SET(FP_alt{}, 1)", "{}(R1)"):
            yield t.format(d) + "\n"
    big = "NOP()\n" * 65536
    for tail in ("LABEL(x)\nSET(R1, x)\n", "LABEL(x)\nCALL(R12, x)\n", "LABEL(x)\nBR(x)\n", "LABEL(x)\nBRR(x)\n", "LABEL(x)\nHALT()\n",
                 "NOP()\nLABEL(x)\nSETLO(R1, x)\n"):
        yield big + tail
    yield "LABEL(x)\n" + big + "BR(x)\nBRR(x)\n"
    yield "SET(R1, 1)\n" * 40000 + "LABEL(x)\nSET(R2, x)\n"
    yield "DSKIP(30000)\nDSKIP(30000)\nDLABEL(d)\nSET(R1, d)\nINTEGER(1)\nDLABEL(e)\nSET(R2, e)\n"


def huge_literals_everywhere():
    """a literal too long for str(int) (hexadecimal, binary, octal: int() converts these without limit, printing them is what
    fails) in every operand position of every operation, once and repeated (so that the declaration rules see it twice)"""
    import hera.op as O
    bigs = ["0x" + "F" * 5000, "0b" + "1" * 20000, "0o" + "7" * 6000, "-0x" + "F" * 5000]
    fill = {"REGISTER": "R1", "REGISTER_OR_LABEL": "R1", "LABEL_TYPE": "lbl", "STRING": '"s"'}
    k = 0
    for name in sorted(O.name_to_class):
        P = getattr(O.name_to_class[name], "P", ())
        arity = max(1, len(P))
        base = [fill.get(str(getattr(t, "__name__", t)), "1") for t in P] or ["1"]
        for pos in range(arity):
            args = list(base)
            args[pos] = bigs[k % len(bigs)]
            k += 1
            stmt = "{}({})".format(name, ", ".join(args))
            yield stmt + "\n"
            yield stmt + "\n" + stmt + "\n"


def symbol_pairs():
    for a in SYMBOL_STATEMENTS:
        for b in SYMBOL_STATEMENTS:
            yield a + "\n" + b + "\n"


def run_front_end(text, mode, d, limit=8):
    """Returns (problem or None, number of diagnostics, accepted flag)."""
    import hera.parser as P
    import hera.checker as C
    import hera.utils as U
    st = progrun.make_settings(mode=mode)
    problem, ndiag, accepted = None, 0, False
    cwd = os.getcwd()
    os.chdir(d)
    with proto.Capture() as cap:
        old = signal.signal(signal.SIGALRM, _alarm)
        signal.setitimer(signal.ITIMER_REAL, limit)
        try:
            stage = "parse"
            oplist, pm = P.parse(text, path=U.Path(os.path.join(d, "main.hera")), settings=st)
            ndiag = len(pm.errors) + len(pm.warnings)
            if not pm.errors:
                stage = "check"
                prog, cm = C.check(oplist, st)
                ndiag += len(cm.errors) + len(cm.warnings)
                accepted = not cm.errors
        except Hang:
            problem = "{} does not return within {}s".format(stage, limit)
        except RecursionError:
            problem = stage + " raised RecursionError"
        except SystemExit as e:
            problem = "{} called sys.exit({})".format(stage, e.code)
        except BaseException as e:  # noqa
            problem = "{} raised {}: {}".format(stage, type(e).__name__, str(e)[:80])
        finally:
            signal.setitimer(signal.ITIMER_REAL, 0)
            signal.signal(signal.SIGALRM, old)
        cap.take()
    os.chdir(cwd)
    return problem, ndiag, accepted


def check(seed, n):
    rng = random.Random(seed)
    d = setup_dir()
    violations, seen = [], set()
    dist = {"accepted": 0, "with_diagnostics": 0, "silent_rejects": 0}
    evals = 0
    hangs = 0
    pairs = list(symbol_pairs()) + list(long_and_large()) + list(huge_literals_everywhere())
    try:
        for k in range(n + len(pairs)):
            if k < n:
                text = gen_text(rng, seed * 9176 + k)
            else:
                text = pairs[k - n]
                dist["symbol_pairs"] = dist.get("symbol_pairs", 0) + 1
            mode = ["", "debug", "assemble", "preprocess"][(k + (k // 4 if k >= n else 0) + seed) % 4]
            problem, ndiag, accepted = run_front_end(text, mode, d, limit=8 if len(text) < 100000 else 60)
            if len(text) > 100000:
                dist["large"] = dist.get("large", 0) + 1
            if k % 997 == 0 or k == n:
                proto.sample("frontfuzz", {"text": text[:300], "mode": mode}, per_stream=4)
            evals += 1
            seen.add((text, mode))
            dist["accepted"] += accepted
            dist["with_diagnostics"] += ndiag > 0
            if problem and "does not return" in problem:
                hangs += 1
            if hangs > 3:
                break        # enough texts on which the front end does not return; waiting for more proves nothing
            if problem:
                violations.append({"property": "C07", "stream": "frontfuzz", "sig": "ff:" + problem.split(":")[0][:50],
                                   "case": {"text": text, "mode": mode}, "what": "front end on {!r}...{!r}: {}".format(text[:60], text[-40:] if len(text) > 100 else "", problem)})
    finally:
        shutil.rmtree(d, ignore_errors=True)
    return {"evaluations": evals, "violations": violations, "disagreements": [], "distribution": dist, "distinct": len(seen)}


def replay_case(case):
    d = setup_dir()
    try:
        return run_front_end(case["text"], case.get("mode", ""), d)[0]
    finally:
        shutil.rmtree(d, ignore_errors=True)
