"""
Debugger sessions on the real Shell: build a shell for a program, feed command lines, observe.
Shared by the C02 / C11 / C12 / C13 / C14 streams.
"""
import random
import re

from . import proto, progrun
from .isa import wf_violation


def make_shell(text, opts=None):
    """Returns (shell, settings) or (None, reason)."""
    import hera.debugger as DBG
    opts = dict(opts or {})
    st = progrun.make_settings(mode="debug", **opts)
    prog, out, errs, exc = progrun.load(text, st)
    if prog is None:
        return None, exc
    with proto.Capture() as cap:
        dbg = DBG.Debugger(prog, st)
        shell = DBG.Shell(dbg, st)
        cap.take()
    return shell, st


class Hang(BaseException):
    pass


def _alarm(signum, frame):
    raise Hang()


def feed(shell, line, limit=0):
    """Run one command line. Returns (stdout, stderr writes, exception name or None, continue flag).
    limit > 0: seconds after which the command is reported as hanging."""
    import signal
    exc, cont = None, True
    with proto.Capture() as cap:
        if limit:
            old = signal.signal(signal.SIGALRM, _alarm)
            signal.setitimer(signal.ITIMER_REAL, limit)
        try:
            cont = shell.handle_command(line)
        except Hang:
            exc = "Hang: no return within {}s".format(limit)
        except SystemExit:
            exc = "SystemExit"
        except RecursionError:
            exc = "RecursionError"
        except Exception as e:  # noqa
            exc = type(e).__name__ + ": " + str(e)[:120]
        finally:
            if limit:
                signal.setitimer(signal.ITIMER_REAL, 0)
                signal.signal(signal.SIGALRM, old)
        out, errs = cap.take()
    return out, errs, exc, cont


REG_NAMES = ["R1", "r2", "R7", "R12", "R13", "FP", "SP", "Rt", "PC_ret", "R0"]
EXPRS = ["5", "0", "-5", "-0xabc", "65535", "65536", "-32768", "-32769", "0-1", "0-100", "R1", "R1+1", "R1*R2",
         "@R1", "@(0-3)", "@65535", "3/0", "10/3", "-7/2", "2*3+4", "(1+2)*3", "pc", "PC+1", "100*700"]
WRITE_CMDS = ["assign", "execute", "on", "off", "goto", "next", "step", "continue", "restart", "undo"]


def gen_write_history(rng, labels, nlines, n=None):
    """A history over the state-writing commands (C02, C13)."""
    n = n or rng.choice([1, 2, 4, 8, 12])
    cmds = []
    for _ in range(n):
        k = rng.random()
        if k < 0.35:
            lhs = rng.choice(REG_NAMES + ["@R1", "@(0-3)", "@100", "@65535", "@(R2+1)", "pc", "PC"])
            rhs = rng.choice(EXPRS)
            cmds.append(rng.choice(["{} = {}", "assign {} {}", "{}={}"]).format(lhs, rhs).replace("assign @(R2+1)", "@(R2+1) ="))
        elif k < 0.5:
            ops = rng.choice(["SET(R1, -1)", "SET(R3, 0xFFFF)", "ADD(R1,R1,R1)", "INC(R2, 64)", "DEC(R2, 1)", "LSL(R4, R3)",
                              "STORE(R1, 31, R3)", "LOAD(R5, 0, R3)", "SETHI(R6, -1)", "SETLO(R6, 200)", "MUL(R1,R3,R3)",
                              "CON()", "FSET5(31)", "SAVEF(R8)", "RSTRF(R3)", "NOT(R1,R2)", "MOVE(SP, R3)",
                              "SET(R1, 70000)", "INTEGER(5)", "BR(R1)", "FOO(1)", "print_reg(R1)"])
            cmds.append("execute " + ops)
        elif k < 0.6:
            cmds.append(rng.choice(["on", "off"]) + " " + rng.choice(["c", "cb", "v", "s", "z", "carry", "carry-block", "c v", "x"]))
        elif k < 0.68:
            tgt = rng.choice(labels + [str(rng.randint(0, nlines + 2)), ".", "nolabel", "-1"]) if labels else str(rng.randint(0, nlines + 2))
            cmds.append("goto " + tgt)
        elif k < 0.82:
            cmds.append(rng.choice(["next", "n", "next 3", "next 0", "next -1", "step", "s"]))
        elif k < 0.88:
            cmds.append("continue")
        elif k < 0.92:
            cmds.append("restart")
        else:
            cmds.append("undo")
    return cmds


_NEG_REG_ASSIGN = re.compile(r"^\s*(?:assign\s+)?([A-Za-z_][A-Za-z0-9_]*)\s*(?:=|\s)\s*(.+)$")


def is_negative_register_assign(shell_before_regs, line, shell):
    """Does `line` assign a negative evaluated value to a register (the pinned behaviour, finding KF-C02-1)?"""
    import hera.utils as U
    m = _NEG_REG_ASSIGN.match(line)
    if not m:
        return False
    lhs = m.group(1)
    try:
        if not U.is_register(lhs):
            return False
        idx = U.register_to_index(lhs)
    except Exception:  # noqa
        return False
    return idx != 0 and type(shell.debugger.vm.registers[idx]) is int and shell.debugger.vm.registers[idx] < 0 \
        and shell_before_regs[idx] >= 0
