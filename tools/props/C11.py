"""C11 — running to completion in the debugger equals running in the interpreter."""
from harness import dbgsem

ID = "C11"
MODULES = ["HeraProofs.Props.C11"]
GENERATED_DEPS = ["Ops.lean", "Exec.lean", "Tables.lean"]
EXPLANATION = ("Theorem C11_debugger_equals_interpreter (induction over command lists, loop fuel and expansion shapes): in the "
               "debugger model every stepping command (next, next n, step, continue, break, clear) moves the machine along the "
               "interpreter's own loop (C11_command_along), so any mixture that reaches the end of the program ends in exactly "
               "the machine VirtualMachine.run ends in - registers, flags, memory, pc, halt status, call stack, output and "
               "warnings. The hypothesis that only the last instruction of a source operation can branch is proved for the "
               "regenerated convert of every class (C11_convert_straight) and for the regenerated execute of SETLO/SETHI/FON/"
               "FOFF (straight_of_instr via C01). The hand model of Debugger.next / real_ops / the handlers is corresponded "
               "with the real Shell after every command (stream dbgmodel); the end-to-end oracle runs real sessions with "
               "random command mixtures and option combinations against the real interpreter.")
ASSUMPTIONS = ["hand model of hera/debugger/debugger.py and the next/step/continue handlers (corresponded, not verified)",
               "StraightGroups is proved per operation class and per straight instruction; that convert_ops applies convert to "
               "each source operation and tags the results with it is checked on every generated program by the stream's "
               "shape monitor, not proved",
               "programs whose run does not terminate are outside the property (sessions are generated on terminating programs)"]


def run(ctx):
    thorough, seed = ctx["thorough"], ctx["seed"]
    total = {"evaluations": 0, "disagreements": [], "violations": [], "streams": {}, "distribution": {}, "distinct_nontrivial": 0}
    for name, rr in (("c11", dbgsem.check_c11(seed, 2500 if thorough else 300)),
                     ("dbgmodel", dbgsem.check_model(seed + 1, 1500 if thorough else 150)),
                     ("shape", dbgsem.check_shape(seed + 2, 1500 if thorough else 200))):
        total["evaluations"] += rr["evaluations"]
        total["distinct_nontrivial"] += rr.get("distinct", 0)
        total["disagreements"] += rr["disagreements"]
        total["violations"] += [v for v in rr["violations"]]
        total["streams"][name] = rr["evaluations"]
        total["distribution"][name] = rr.get("distribution", {})
    total["rule"] = ("generated terminating programs (calls, loops, data, adjacent identical operations, recursion, wild control flow) "
                     "x random mixtures of next / next n / step / continue x --big-stack, --init, --warn-return-off")
    total["samples"] = [{"text": "BRR(2)\\nBRR(2)\\n...", "cmds": ["next", "step", "continue"]}]
    return total


def replay(obj):
    case = obj["case"]
    if obj.get("stream") == "c11":
        r = dbgsem.c11_case(case["text"], case["opts"], case["cmds"], max_steps=60000)
        return None if r in (None, "skip") else r
    if obj.get("stream") == "shape":
        return dbgsem.shape_problem(case["text"], case.get("opts", {}))
    return None
