"""C14 — the debugger shell never crashes; its expression language is bounded integer arithmetic."""
from harness import dbg, expr, shellfuzz

ID = "C14"
MODULES = ["HeraProofs.Props.C14", "HeraProofs.Props.C14b"]
GENERATED_DEPS = []
EXPLANATION = ("Theorems C14_eval / C14_eval_range (structural induction over all expression trees, every debugger state): "
               "Shell.evaluate_node computes exactly bounded integer arithmetic with floor division - a value in -32768..65535 or one "
               "of four error kinds, never anything else. The hand model of the Pratt parser and the evaluator is corresponded with the "
               "real miniparser / evaluate_node on the real lexer's tokens; generated trees rendered with minimal and redundant "
               "parentheses, all number bases and register spellings are checked against the tree that was written and the "
               "specification's value. Robustness: arbitrary command lines (every command and abbreviation, malformed arguments) in "
               "the states start / middle / finished / pc outside the program / inside a call / inconsistent call stack must return "
               "to the prompt without an exception. The parser reads what is written (C14b, over the parser model): mono_succ (more "
               "fuel never changes a result), claimB / C14_parse_raw (for every expression tree over atom tokens, its text - written "
               "with exactly the parentheses that precedence and left associativity require - is parsed back to that tree, whatever "
               "follows it: `*` `/` over `+` `-`, left associativity, prefix `-` and `@` tighter than any infix operator, "
               "parentheses override), C14_parse (the entry point with end of line and the depth limit).")
ASSUMPTIONS = ["the lexer is not modelled: the parser model runs on the real lexer's token sequence",
               "robustness of the shell (no uncaught exception for any command line) is decided by the command-line stream on the real "
               "Shell, not by a theorem: the command handlers print and touch terminal state that no executable model here expresses",
               "C14_parse_raw is about the canonical text of a tree (minimal parentheses); redundant parentheses, number bases and "
               "register spellings are covered by the oracle stream on the real parser"]


def run(ctx):
    thorough, seed = ctx["thorough"], ctx["seed"]
    total = {"evaluations": 0, "disagreements": [], "violations": [], "streams": {}, "distribution": {}, "distinct_nontrivial": 0}
    for name, rr in (("expr", expr.check(seed, 60000 if thorough else 1500)),
                     ("shellfuzz", shellfuzz.check(seed + 1, 12000 if thorough else 400))):
        total["evaluations"] += rr["evaluations"]
        total["distinct_nontrivial"] += rr.get("distinct", 0)
        total["disagreements"] += rr["disagreements"]
        total["violations"] += rr["violations"]
        total["streams"][name] = rr["evaluations"]
        total["distribution"][name] = rr.get("distribution", {})
    total["rule"] = ("expression trees of depth 0..6 over boundary literals, all register spellings, defined/undefined symbols and pc, "
                     "rendered in bases 2/8/10/16 with minimal and redundant parentheses, in three debugger states, plus malformed "
                     "and random strings; command lines = every command/abbreviation x argument pool x 6 debugger states")
    total["samples"] = [{"text": "-7/2", "value": -4}, {"text": "@(0-3)", "means": "cell 0xFFFD"}, {"text": "100*700", "error": "overflow"}]
    return total


def replay(obj):
    case = obj["case"]
    if obj.get("stream") == "expr":
        return expr.replay_case(case)
    if obj.get("stream") == "shellfuzz":
        import random
        shell, st = dbg.make_shell(case["text"], {"big_stack": case.get("big_stack", False)})
        if shell is None:
            return None
        shellfuzz.prepare(shell, random.Random(case.get("prep_seed", 0)), case["state"])
        for line in case["cmds"]:
            out, errs, exc, cont = dbg.feed(shell, line, limit=10)
            if exc:
                return "{!r} raised {}".format(line, exc)
            if cont is False:
                break
        return None
    return None
