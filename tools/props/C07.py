"""C07 — the front end is total: any text yields diagnostics, never a crash or hang."""
from harness import frontfuzz, chk

ID = "C07"
MODULES = ["HeraProofs.Props.C10", "HeraProofs.Props.C16", "HeraProofs.Props.C09"]
GENERATED_DEPS = []
EXPLANATION = ("The parts of the front end that are modelled in Lean are total functions whose termination Lean has checked and "
               "which are corresponded with the real code on arbitrary (also malformed) input: the string-literal reader "
               "(StrLit.readBody: every iteration consumes a character, C10_read_range holds for every text), the conditional-"
               "compilation evaluator (Ifdef.scan / evalGo, C16_ifdef for every structure), the type checker over arbitrary "
               "operation lists with operands of any kind and count (Chk.typecheck, C09_op_iff). The whole pipeline - lexer, "
               "conditionals, parser with includes, checker, preprocessor in every mode - is decided by the fuzz stream with a "
               "watchdog: random ASCII incl. NUL and control characters, every operation name with operands of arbitrary kinds "
               "and counts, and valid programs damaged by insertion of dangerous fragments, deletion, truncation and cutting.")
ASSUMPTIONS = ["no executable Lean model of the whole lexer + recursive-descent parser exists here: totality of the pipeline is "
               "decided by the fuzz stream on the real code (a sampled, not a proved, for-all)",
               "a hang is a front-end call that does not return within 8 s on inputs of at most a few hundred characters"]


def run(ctx):
    thorough, seed = ctx["thorough"], ctx["seed"]
    r = frontfuzz.check(seed, 40000 if thorough else 4000)
    grid, items = chk.check_grid(False, seed)
    r["violations"] += [v for v in grid["violations"] if v.get("property") == "C07"]
    r["evaluations"] += len(items)
    r["distinct_nontrivial"] = r["distinct"] + len({it["text"] + it.get("mode", "") for it in items})
    r["streams"] = {"frontfuzz": r["evaluations"] - len(items), "grid": len(items)}
    r["rule"] = ("texts: random ASCII 0..127, punctuation soup, control characters; every operation name x operands of arbitrary kind and "
                 "count; generated valid programs with 0-4 edits (dangerous fragment inserted, deletion, truncation, cut) and "
                 "#include lines naming missing / directory / NUL / binary / self-including files; x 4 modes")
    r["samples"] = [{"text": 'SET(R1, "unclosed'}, {"text": '#include "a\\0b"'}]
    return r


def replay(obj):
    return frontfuzz.replay_case(obj["case"])
