"""C07 — the front end is total: any text yields diagnostics, never a crash or hang."""
from harness import frontfuzz, chk, lexer, ifdefs, parser

ID = "C07"
MODULES = ["HeraProofs.Props.C07", "HeraProofs.Props.C10", "HeraProofs.Props.C16", "HeraProofs.Props.C09", "HeraProofs.Props.C07b", "HeraProofs.Props.C07c", "HeraProofs.Props.C07d"]
GENERATED_DEPS = []
EXPLANATION = ("Theorems over the lexer model (every loop termination-checked by Lean; corresponded with the real Lexer token by "
               "token incl. line and column on valid, damaged and random ASCII texts): C07_token_progress (every token but EOF "
               "consumes at least one character, whatever the text), C07_lexer_terminates (the token stream of any text ends with "
               "EOF and has at most one token per character plus one: the lexer cannot loop, stall or run past the end), with "
               "skip_le, readBody_rest_lt, readCharBody_rest_lt, tokenAt_eof, lexGo_ends. Further total, corresponded models: "
               "the string-literal reader (C10_read_range), conditional compilation (C16_ifdef), the type checker over arbitrary "
               "operation lists with operands of any kind and count (C09_op_iff). The recursive-descent parser (C07c, Model/Parser.lean: "
               "match_program, match_op, match_optional_arglist, match_value, match_int, match_include up to the file access, "
               "handle_cpp_boilerplate, expect, skip_until with all their error recovery) is modelled over the lexer model's "
               "tokens, total by construction (its loops recurse only on a strictly shorter token list, otherwise a `stuck` marker "
               "is returned), corresponded with the real parser on operations, error messages and warnings with line and column; "
               "C07_parser_never_stuck / C07_parser_total prove that the marker is unreachable: for every token list each "
               "iteration of either loop consumes a token (argStep_ok, argLoop_ok, progStep_ok, progLoop_ok); C07d: messages only grow and "
               "C07_dropped_op_reports - whenever the parser leaves an operation out (unparsable argument list, unknown name) at "
               "least one error has been recorded (argStep_msgs, argLoop_msgs, matchArglist_none_lt). What remains - reading "
               "included files, the preprocessor around it, all four modes - is decided by the watchdog fuzz stream on the real code: "
               "random ASCII incl. NUL and control characters, every operation name with arbitrary operands, damaged valid "
               "programs, hostile includes, and all ordered pairs of 46 statements sharing symbols.")
ASSUMPTIONS = ["what an #include contributes (reading the file, recursion through the included text, cycle detection) is outside the "
               "parser model: the model records the include and the harness runs includes that fail; include graphs are C16's "
               "stream; the end-to-end totality with real files is the fuzz stream's (a sampled, not a proved, for-all)",
               "the lexer model covers ASCII texts (hera rejects other files); str.isalpha / isdigit / isspace modelled for ASCII",
               "a hang is a front-end call that does not return within 8 s on inputs of at most a few hundred characters"]


def run(ctx):
    thorough, seed = ctx["thorough"], ctx["seed"]
    r = frontfuzz.check(seed, 150000 if thorough else 4000)
    lx = lexer.check(seed + 3, 300000 if thorough else 6000)
    r["violations"] += lx["violations"]
    r["disagreements"] += lx["disagreements"]
    ps = parser.check(seed + 7, 100000 if thorough else 4000)
    r["violations"] += ps["violations"]
    r["disagreements"] += ps["disagreements"]
    # conditional compilation on rendered, mutated and unbalanced directive sequences: an exception there is C07's business
    ifd = ifdefs.check(seed + 11, 60000 if thorough else 3000)
    r["violations"] += [v for v in ifd["violations"] if v.get("property") == "C07"]
    r["evaluations"] += ifd["evaluations"]
    grid, items = chk.check_grid(False, seed)
    r["violations"] += [v for v in grid["violations"] if v.get("property") == "C07"]
    r["evaluations"] += len(items) + lx["evaluations"] + ps["evaluations"]
    r["distinct_nontrivial"] = r["distinct"] + lx["distinct"] + ps["distinct"] + len({it["text"] + it.get("mode", "") for it in items})
    r["streams"] = {"frontfuzz": r["evaluations"] - len(items) - lx["evaluations"] - ps["evaluations"], "grid": len(items), "lexer": lx["evaluations"],
                    "parser": ps["evaluations"]}
    r["rule"] = ("texts: random ASCII 0..127, punctuation soup, control characters; every operation name x operands of arbitrary kind and "
                 "count; generated valid programs with 0-4 edits (dangerous fragment inserted, deletion, truncation, cut) and "
                 "#include lines naming missing / directory / NUL / binary / self-including files; x 4 modes")
    r["samples"] = [{"text": 'SET(R1, "unclosed'}, {"text": '#include "a\\0b"'}]
    return r


def replay(obj):
    if obj.get("stream") == "ifdef":
        import hera.parser as P
        try:
            P.evaluate_ifdefs(obj["case"]["text"])
        except Exception as e:  # noqa
            return "evaluate_ifdefs raised " + type(e).__name__
        return None
    return frontfuzz.replay_case(obj["case"])
