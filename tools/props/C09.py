"""C09 — the checker accepts exactly the programs that obey the documented operand rules."""
from harness import chk

ID = "C09"
MODULES = ["HeraProofs.Props.C09", "HeraProofs.Props.C09b"]
GENERATED_DEPS = ["Tables.lean", "Ops.lean", "Exec.lean"]
EXPLANATION = ("Program-level rules, in the direction `a non-conforming program is rejected` (C09b, over the checker model, every "
               "program, every mode): C09_redeclaration_iff (the redeclaration pass reports nothing iff no name is declared twice), "
               "C09_redeclared_rejected, C09_data_after_code_rejected, C09_debug_ops_rejected, tc_errors_grow (messages are only ever "
               "added). "
               "Theorems: table_P (the regenerated P table of every class equals the hand-written documented signature table), "
               "checkArg_iff, C09_op_iff (the model of op.typecheck reports no error for an operation iff it conforms to its "
               "documented signature, for all tokens, all integers, all symbol environments, both assembly_only settings). "
               "Checker model corresponded with the real parse+check on the operand grid (every operation name x arity 0..4 x "
               "operand kinds x modes x --no-debug-ops) and on generated programs in all modes; program-level rules "
               "(redeclaration, data after code, constants before declaration, interrupts, debugging ops, memory fit) decided "
               "by the executable Spec.Signature.programConforms against the real checker's verdict on the same streams.")
ASSUMPTIONS = ["program-level equivalence (typecheck fold = declarative rule set) is decided by the Spec oracle on the streams, the Lean "
               "theorem covers the operation level",
               "register spellings are the lexer/parser's job (covered by the grid through the real parser)"]


def run(ctx):
    thorough, seed = ctx["thorough"], ctx["seed"]
    total = {"evaluations": 0, "disagreements": [], "violations": [], "streams": {}}
    r, items = chk.check_grid(thorough, seed)
    rules = chk.rule_items()
    progs = chk.gen_prog_items(seed + 5, 1500 if thorough else 150)
    r2 = chk.check_texts(rules + progs)
    r3 = chk.check_signature(items + rules + progs)
    r4 = chk.check_near_register_names()
    for name, rr in (("grid", r), ("rules+prog", r2), ("sig-oracle", r3), ("names", r4)):
        total["evaluations"] += rr["evaluations"]
        total["disagreements"] += rr["disagreements"]
        total["violations"] += rr["violations"]
        total["streams"][name] = rr["evaluations"]
    total["distinct_nontrivial"] = len({it["text"] + it.get("mode", "") for it in items + rules + progs})
    total["exhaustive"] = False
    total["distribution"] = {"grid": r["stats"], "grid_cases": r["grid_cases"], "rules+prog": r2["stats"]}
    total["rule"] = ("grid: every operation name x arity 0..4 x operand kinds (register spellings, boundary and just-outside integers, "
                     "chars, strings, symbols bound to label / data label / constant / nothing) x modes x --no-debug-ops; plus rule "
                     "programs and generated programs; distinct = distinct (text, mode)")
    total["samples"] = [{"text": items[5]["text"], "mode": items[5]["mode"]}]
    return total


def replay(obj):
    case = obj["case"]
    if case.get("names"):
        from harness import progrun
        res, oplist, prog, pm, exc = chk.real_check(case["text"], progrun.make_settings(mode=case.get("mode", "")))
        ok = res is not None and not exc and res[0].startswith("ok")
        return None if ok else "the checker rejects a program that obeys the documented rules"
    r = chk.check_signature([case])
    return r["violations"][0]["what"] if r["violations"] else None
