"""C12 — stepping and breakpoints follow source operations exactly."""
from harness import dbgsem

ID = "C12"
MODULES = ["HeraProofs.Props.C12"]
GENERATED_DEPS = ["Ops.lean", "Exec.lean", "Tables.lean"]
EXPLANATION = ("Theorems over the debugger model, for every program, state and breakpoint set: C12_next_source_op (next on a "
               "non-CALL executes exactly the remaining instructions of the current source operation), C12_step (step on a CALL "
               "executes exactly the CALL's instructions, elsewhere nothing), C12_next_n (next n = n successive next), "
               "C12_continue / C12_next_call via whileNext_first (the loops stop at the FIRST source-operation boundary where "
               "the program has ended, a breakpoint is reached, or - for next on a CALL - the call depth is back), "
               "C12_step_is_interpreter (a source-level step is a run of the interpreter's loop). The model is corresponded "
               "with the real Shell after every command (dbgmodel); an independent reference stepper built from the "
               "interpreter's single step and the source map checks machine state, breakpoint set and the displayed '->' line "
               "after every command of generated interleavings of next/step/continue/break/clear.")
ASSUMPTIONS = ["hand model of Debugger.next / real_ops / handlers (corresponded, not verified)",
               "location syntax of break/clear (line, label, '.') and the display are decided by the reference-stepper oracle on "
               "the real Shell, not modelled in Lean"]


def run(ctx):
    thorough, seed = ctx["thorough"], ctx["seed"]
    total = {"evaluations": 0, "disagreements": [], "violations": [], "streams": {}, "distribution": {}, "distinct_nontrivial": 0}
    for name, rr in (("c12", dbgsem.check_c12(seed, 2500 if thorough else 300)),
                     ("dbgmodel", dbgsem.check_model(seed + 1, 1500 if thorough else 150))):
        total["evaluations"] += rr["evaluations"]
        total["distinct_nontrivial"] += rr.get("distinct", 0)
        total["disagreements"] += rr["disagreements"]
        total["violations"] += rr["violations"]
        total["streams"][name] = rr["evaluations"]
        total["distribution"][name] = rr.get("distribution", {})
    total["rule"] = ("generated terminating programs with adjacent identical operations, pseudo-ops of every expansion length, nested "
                     "calls and recursion x interleavings of next/next n/step/continue/break/clear (lines, labels, '.', invalid)")
    total["samples"] = [{"cmds": ["break f", "next", "continue", "step", "clear *"]}]
    return total


def replay(obj):
    case = obj["case"]
    if obj.get("stream") == "c12policy":
        r, done, cmds = dbgsem.policy_case(case["text"], case["policy"], case.get("break"))
        return None if r in (None, "skip") else r
    if case.get("multifile"):
        r, done = dbgsem.multifile_case(case["cmds"])
        return None if r in (None, "skip") else r
    r, done = dbgsem.c12_case(case["text"], case["opts"], case["cmds"])
    return None if r in (None, "skip") else r
