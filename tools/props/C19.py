"""C19 — the built-in Tiger standard library keeps its functional and calling contracts."""
from harness import tiger

ID = "C19"
MODULES = ["HeraProofs.Props.C19", "HeraProofs.Props.C19b", "HeraProofs.Props.C19c", "HeraProofs.Props.C19d"]
GENERATED_DEPS = ["Ops.lean", "Stdlib.lean"]
EXPLANATION = ("Theorem C19_div_mod (all 2^32 operand pairs, via Int.fdiv / Int.fmod lemmas and nonlinear arithmetic): the div and "
               "mod helpers - modelled over the regenerated from_u16 / to_u16 - never raise, return 16-bit words, give 0 for a "
               "zero divisor and otherwise satisfy a = q*b + r with |r| < |b| and r carrying the divisor's sign, except for the "
               "one quotient that does not fit (-32768 / -1). The model is corresponded with all four real helpers. Loop-free "
               "routines of the register-convention library (C19b): their instruction lists are regenerated on every run from "
               "hera/stdlib.py through the real loader (Generated/Stdlib.lean; *_code_is_ops ties them to the objects of "
               "program.code) and executed symbolically by the architecture Spec.exec, which the regenerated execute methods "
               "refine (C01_step): C19_size, C19_ord, C19_not (all argument values, all prior register and memory contents: "
               "result, return to PC_ret, FP / FP_alt exchanged back, SP, R2..R10 and memory kept), C19_malloc (whenever the "
               "block fits below the end of the heap: returns the first free address, advances the heap pointer by exactly n, "
               "changes no other cell, keeps SP and R2..R8 - so consecutive blocks are adjacent and disjoint; first call "
               "included). Stack convention (C19c): C19_size_stack, C19_ord_stack (argument slot FP+3 receives the result, provided the "
               "string does not lie in the scratch slot FP+4; R1, SP, R2..R11 restored; only FP+3 and FP+4 change), C19_not_stack "
               "(both paths; only the frame cells FP, FP+1, FP+3, FP+4 change; returns to the saved PC_ret). A routine with a loop "
               "(C19d): C19_memcpy - the word-copy loop of concat and substring (tstdlib_label_local_memcpy_reg), for every count "
               "0..65535, all addresses (overlapping, wrapping) and all prior states: returns after exactly 12 n + 7 instructions with "
               "memory = the forward word-by-word copy, R1 / R2 advanced by n, R3 = 0, FP / FP_alt exchanged back, SP and R5..R10 "
               "kept; by a loop invariant proved by induction on n (memcpy_loop) over memcpy_iter and memcpy_exit. Every other function "
               "and other layouts are decided by generated caller programs on the real interpreter, in both calling conventions, from "
               "random prior register contents: returns to its caller, SP and FP restored, R1..R10 preserved (stack convention), "
               "functional result (not, size, ord, chr, concat, substring incl. out-of-range bounds, sign of tstrcmp for equal / "
               "prefix / differing strings, malloc: first cell, successive blocks disjoint and inside the heap, out-of-memory "
               "stop), arguments unchanged, printint / print output.")
ASSUMPTIONS = ["proved: div, mod, size / ord / not / malloc of the register convention and size / ord / not of the stack convention (as laid "
               "out when the library is the whole program; failure paths of malloc - out of memory - are not in the theorem); the "
               "copy loop (memcpy) is proved for every count by a loop invariant; the routines that call it or have their own loops "
               "(concat, substring, tstrcmp), chr, stack-convention malloc and every other layout are decided by the caller-program "
               "oracle - proving them needs runs across code segments (calls into malloc / memcpy), which was not reached",
               "getline / getchar / getchar_ord: only the calling contract is checked (their values are not specified by the property)",
               "the register convention is checked for: return to caller, SP, FP, result in R1 (which scratch registers it may "
               "clobber is not documented)"]


def run(ctx):
    thorough, seed = ctx["thorough"], ctx["seed"]
    total = {"evaluations": 0, "disagreements": [], "violations": [], "streams": {}, "distribution": {}, "distinct_nontrivial": 0}
    for name, rr in (("tiger", tiger.check(seed, 12000 if thorough else 1200)),
                     ("tigerdiv", tiger.check_divmod(seed + 1, 20000 if thorough else 2000))):
        total["evaluations"] += rr["evaluations"]
        total["distinct_nontrivial"] += rr.get("distinct", 0)
        total["disagreements"] += rr["disagreements"]
        total["violations"] += rr["violations"]
        total["streams"][name] = rr["evaluations"]
        total["distribution"][name] = rr.get("distribution", {})
    total["rule"] = ("(function, convention, arguments, 10 prior register values): integers from a boundary pool incl. negatives and zero "
                     "divisors; strings empty / equal / prefix / differing in one character; substring bounds in and out of range; "
                     "malloc sizes up to and beyond the heap; each case is a whole caller program run by the real interpreter")
    total["samples"] = [{"fn": "div", "conv": "stack", "args": [-6, 2]}, {"fn": "tstrcmp", "strings": ["abc", "abd"]}]
    return total


def replay(obj):
    return tiger.replay_case(obj["case"])
