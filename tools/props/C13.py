"""C13 — debugger undo and restart restore state faithfully."""
from harness import dbgsem

ID = "C13"
MODULES = ["HeraProofs.Props.C13"]
GENERATED_DEPS = ["Alias.lean", "Ops.lean"]
EXPLANATION = ("Theorems: C13_undo (after any state-changing command, undo restores the complete debugger and the history), "
               "C13_undo_walk (as many undos as commands walk back to the start, by induction over histories), C13_restart "
               "(restart = the start state of a fresh session + breakpoints, using C15_reset_covers on the regenerated "
               "reset), C13_copy_separate (regenerated from the source: every attribute of VirtualMachine / Debugger that is "
               "mutated in place anywhere in hera/ is re-copied by VirtualMachine.copy / Debugger.save, which is what makes "
               "the value model adequate for Python objects). Correspondence after every command incl. undo/restart/goto/on/"
               "off (dbgmodel); oracle: full snapshots (machine, call stack, call depth, breakpoints, `info` output) before "
               "each command and after command+undo, walking back to the start, restart vs a fresh Shell.")
ASSUMPTIONS = ["assign and execute are not in the Lean command model: for them undo is decided by the snapshot oracle on the real "
               "Shell (and by C13_copy_separate, which covers every in-place mutation whatever command performs it)",
               "the alias analysis is syntactic (item store/delete, mutating method calls, attribute stores through `.vm`); "
               "mutation through other aliases would escape it; Settings is shared by design and excluded"]


def run(ctx):
    thorough, seed = ctx["thorough"], ctx["seed"]
    total = {"evaluations": 0, "disagreements": [], "violations": [], "streams": {}, "distribution": {}, "distinct_nontrivial": 0}
    for name, rr in (("c13", dbgsem.check_c13(seed, 2500 if thorough else 300)),
                     ("dbgmodel", dbgsem.check_model(seed + 1, 1500 if thorough else 150))):
        total["evaluations"] += rr["evaluations"]
        total["distinct_nontrivial"] += rr.get("distinct", 0)
        total["disagreements"] += rr["disagreements"]
        total["violations"] += rr["violations"]
        total["streams"][name] = rr["evaluations"]
        total["distribution"][name] = rr.get("distribution", {})
    total["rule"] = ("generated programs with data, calls, loops x histories over next/step/continue/assign/execute/goto/break/clear/"
                     "on/off/restart interleaved with undo, then undo back to the start")
    total["samples"] = [{"cmds": ["next 5", "R1 = 7", "undo", "undo", "restart"]}]
    return total


def replay(obj):
    case = obj["case"]
    r, done = dbgsem.c13_case(case["text"], case["opts"], case["cmds"])
    return None if r in (None, "skip") else r
