"""C10 — `hera preprocess` prints a program that means the same as its input."""
import shutil

from harness import asmrun, roundtrip

ID = "C10"
MODULES = ["HeraProofs.Props.C10"]
GENERATED_DEPS = []
EXPLANATION = ("Theorems C10_string_roundtrip (induction over all strings of characters below 512 and all following text: the "
               "lexer reads the literal written by the listing printer back as exactly that string, with no warning) and "
               "C10_read_range (every string the lexer can read from ASCII text has characters below 512, so the round trip's "
               "hypothesis is closed). The hand model of string_to_literal and of consume_str / consume_delimited / "
               "read_escape_char is corresponded with the real functions on generated and damaged literals. End to end on every "
               "run: real `hera preprocess` listings (index column removed) are fed back through the real CLI - same assembler "
               "output, fixed point of preprocessing, `--obfuscate` form accepted and encoding the same program - on generated "
               "programs with string data over every writable character, negative and symbolic operands, every pseudo-op.")
ASSUMPTIONS = ["only the string-literal layer is a theorem; integers, registers and the operation syntax of the listing are decided "
               "by the end-to-end round trip through the real CLI",
               "hand model of the string writer / reader (corresponded, not verified); input files are ASCII (hera rejects others)"]


def run(ctx):
    thorough, seed = ctx["thorough"], ctx["seed"]
    total = {"evaluations": 0, "disagreements": [], "violations": [], "streams": {}, "distribution": {}, "distinct_nontrivial": 0}
    for name, rr in (("roundtrip", roundtrip.check(seed, 3000 if thorough else 300)),
                     ("strlit", roundtrip.check_strings(seed + 1, 200000 if thorough else 3000))):
        total["evaluations"] += rr["evaluations"]
        total["distinct_nontrivial"] += rr.get("distinct", 0)
        total["disagreements"] += rr["disagreements"]
        total["violations"] += rr["violations"]
        total["streams"][name] = rr["evaluations"]
        total["distribution"][name] = rr.get("distribution", {})
    total["rule"] = ("programs: data-heavy (strings over code points 0..511 in every spelling, boundary integers, DSKIP) and generated "
                     "code with every pseudo-op; each is preprocessed, re-assembled, re-preprocessed and obfuscated through the real "
                     "CLI. literals: writer output, generator spellings, damaged literals")
    total["samples"] = [{"text": 'LP_STRING("a\\\\x01b\\\\777")'}]
    return total


def replay(obj):
    case = obj["case"]
    d = asmrun.scratch_dir()
    try:
        r = roundtrip.run_case(case["text"], d, case.get("big_stack", False), one_op_per_line=case.get("one_op_per_line", False))
        return None if r in (None, "skip") else r
    finally:
        shutil.rmtree(d, ignore_errors=True)
