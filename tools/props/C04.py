"""C04 — labels, data labels and constants resolve to the right place in every mode."""
from harness import chk, includes, labels

ID = "C04"
MODULES = ["HeraProofs.Props.C04", "HeraProofs.Props.C04b", "HeraProofs.Props.C04c"]
GENERATED_DEPS = ["Tables.lean", "Ops.lean", "Exec.lean"]
EXPLANATION = ("Theorems: C04_convert_length over the regenerated convert methods (every operation expands to exactly the number of "
               "machine instructions that label placement counts for it, all classes, all operand tuples); over the checker model, for "
               "all programs and all four modes: C04_pc_sum / C04_label_value (a label declared once denotes the sum of the counted "
               "lengths of the operations before it: declarations and data statements 0, debugging operations 0 exactly when "
               "assembling / preprocessing), C04_codeLen_expansion (the counted length is what the regenerated convert contributes "
               "to the instruction stream after label substitution), C04_label_is_stream_index (hence the label's value is the "
               "index, in the final instruction stream, of the first instruction that follows it), C04_dlabel_value (data labels: "
               "data-segment start plus the cells laid out before it, INTEGER 1, LP_STRING length+1, DSKIP n). The checker model "
               "(get_labels, operation_length, substitute_label, convert_ops, check) is corresponded with the real check() - full symbol "
               "table, data list and code list - on generated programs in run/debug/assemble/preprocess mode x --big-stack. Oracles: "
               "the placement specification Sig.envAt vs the real symbol table; marker instructions after every label; data cells at "
               "data labels; relative branches to labels over distances around +-128 with pseudo-ops and debugging ops in between.")
ASSUMPTIONS = ["the whole-program theorems are over the hand model Model/Checker.lean (labelStep, convStep, convGo), tied to the real "
               "checker by the correspondence stream; they assume operations of the shape the type checker lets through (right "
               "operand count; register-branch operand a register or a symbol) and a label that is not declared again later",
               "the reach rule for relative branches (-128..127) and constants are in the model and corresponded / oracle-decided; "
               "includes are C16's subject"]


def run(ctx):
    thorough, seed = ctx["thorough"], ctx["seed"]
    total = {"evaluations": 0, "disagreements": [], "violations": [], "streams": {}}
    progs = chk.gen_prog_items(seed + 9, 8000 if thorough else 240)
    parts = (("check-model", chk.check_texts(progs)),
             ("labels", labels.check_programs(seed, 3000 if thorough else 80)),
             ("relative", labels.check_relative(seed, 4000 if thorough else 120)))
    # labels across includes: the checked program of an include graph equals that of the flattened text
    inc = includes.check(seed + 5, 1500 if thorough else 150)
    inc["violations"] = [dict(v, property="C04") for v in inc["violations"] if v.get("sig") == "include:program"]
    inc["disagreements"] = []
    parts = parts + (("includes", inc),)
    for name, rr in parts:
        total["evaluations"] += rr["evaluations"]
        total["disagreements"] += rr["disagreements"]
        total["violations"] += rr["violations"]
        total["streams"][name] = rr["evaluations"]
    total["distinct_nontrivial"] = len({p["text"] + p["mode"] for p in progs})
    total["rule"] = ("generated programs (labels with markers, every pseudo-op, debugging ops, data statements, forward/backward "
                     "references, calls) x four modes x big-stack; relative-branch programs at distances -130..130; distinct = (text, mode)")
    total["distribution"] = {"check-model": parts[0][1]["stats"]}
    total["samples"] = [{"text": progs[0]["text"][:300], "mode": progs[0]["mode"]}]
    return total


def replay(obj):
    case = obj["case"]
    if obj.get("stream") in ("relative", "labels"):
        return labels.replay_case(obj["stream"], case)
    if obj.get("stream") == "includes":
        return includes.replay_case(case)
    if obj.get("stream") == "chk":
        r = chk.check_texts([case])
        v = [x for x in r["violations"] if x.get("property", ID) == ID]
        return v[0]["what"] if v else None
    return None
