"""C17 — every diagnostic points at the real place in the user's file."""
from harness import locs

ID = "C17"
MODULES = ["HeraProofs.Props.C17", "HeraProofs.Props.C07", "HeraProofs.Props.C07b"]
GENERATED_DEPS = []
EXPLANATION = ("Theorems: C17_token_in_quoted_line (for every text pre ++ tok ++ post with no line break in tok: the (line, column) "
               "that next_char's accounting yields after pre names an existing line of text.split('\\n'), and that line continues "
               "at that column with tok - the quoted line and the caret column are right for every layout before the token), "
               "C17_caret (the caret prefix copies tabs and blanks everything else), C17_ifdef_keeps_lines / evalGoP_lines (the "
               "conditional-compilation pass as the parser calls it keeps every line break - discarded blocks, directives, "
               "swallowed blank lines - so kept text stays on its line). Models corresponded with Lexer.next_char / file_lines / "
               "align_caret / evaluate_ifdefs(preserve_lines=True) on texts with every line-break-like character. Oracle: programs "
               "with one planted fault of 20 diagnostic kinds at a known token under layouts (tabs, comments, multi-line "
               "operations, same-line operations, CRLF, form feeds, kept / dead / else conditional blocks, includes): reported "
               "file, line, column, quoted line and caret against the generator's positions."
               " Lexer model (C07 / C07b): C17_token_is_text_at_offset (a token's value is the text at its offset), tokenAt_off and C17_offsets_in_order (in the token stream of any text the offsets never decrease and never pass the end of the text). Run-time diagnostics: 6 planted run-time fault kinds with look-alike operations; stream oploc: the operations of every loaded program carry, in order, exactly the positions they were written at.")
ASSUMPTIONS = ["which token a diagnostic is attached to (operand vs operation name) and token start positions are decided by the "
               "planted-fault oracle on the real front end; the lexer's tokenisation is not modelled in Lean",
               "C17_ifdef_keeps_lines assumes that the scanner's segments partition the text; the model driver checks this for every "
               "input of the correspondence stream",
               "run-time warnings are covered by the C11 stream (location of warnings in debugger = interpreter)"]


def run(ctx):
    thorough, seed = ctx["thorough"], ctx["seed"]
    total = {"evaluations": 0, "disagreements": [], "violations": [], "streams": {}, "distribution": {}, "distinct_nontrivial": 0}
    for name, rr in (("locs", locs.check(seed, 60000 if thorough else 1500)),
                     ("oploc", locs.check_oploc(seed + 2, 40000 if thorough else 1500)),
                     ("locmodel", locs.check_model(seed + 1, 150000 if thorough else 3000))):
        total["evaluations"] += rr["evaluations"]
        total["distinct_nontrivial"] += rr.get("distinct", 0)
        total["disagreements"] += rr["disagreements"]
        total["violations"] += rr["violations"]
        total["streams"][name] = rr["evaluations"]
        total["distribution"][name] = rr.get("distribution", {})
    total["rule"] = ("20 fault kinds x layouts (indentation, tabs, comments, multi-line, same-line, CRLF, form feed / vertical tab) x "
                     "environments (plain, kept / dead / else conditional block, include); texts over all line-break-like characters x "
                     "offsets; conditional structures incl. mutated and blank-line-padded")
    total["samples"] = [{"text": "#ifdef HERA_C\\njunk\\n#endif\\nADD(R1, R17, R3)\\n", "expect": "line 4 col 9"}]
    return total


def replay(obj):
    return locs.replay_case(obj["case"])
