"""C15 — runs are repeatable, isolated from earlier runs, and throttling cuts cleanly."""
from harness import isolation

ID = "C15"
MODULES = ["HeraProofs.Props.C15"]
GENERATED_DEPS = ["OpFacts.lean", "Ops.lean", "Exec.lean"]
EXPLANATION = ("Theorems over the run-loop model with guards and reset() regenerated from hera/vm.py: C15_reset_covers / "
               "C15_run_function (reset assigns every machine field, so a run depends on program, settings and prior output "
               "only), C15_throttle_cut and C15_throttle_uncut (the throttled loop ends in exactly the state of the unthrottled "
               "trajectory after min(n, length) iterations with op_count = min(n, length)). Streams: repeat / isolation / "
               "field audit / default-argument audit / throttle sweep on the real VirtualMachine, throttled-run model "
               "correspondence.")
ASSUMPTIONS = ["the throttle theorems assume that no operation reads or writes op_count (hypothesis hexec; true of the regenerated "
               "code by inspection of Generated/Ops.lean: op_count occurs only in reset and the run loop)",
               "process-level state outside the VirtualMachine object is audited (default arguments) and exercised (file sequences through main() in one process), not modelled"]


def run(ctx):
    r = isolation.check(ctx["seed"], 600 if ctx["thorough"] else 80, ctx["thorough"])
    r["distinct_nontrivial"] = r["programs"]
    r["rule"] = ("generated terminating programs; per program: run twice on one machine, after another program, throttle sweep "
                 "n in {0,1,2,len-1,len,len+1,len+2,random} vs step-by-step prefix state; distinct = distinct programs")
    r["rule"] += ("; process level: main() called repeatedly in one process on a directory whose main.hera / included lib.hera are "
                  "rewritten between the calls, each run against the same files in a never-seen directory")
    r["streams"] = {"isolation": r["evaluations"]}
    r["samples"] = [{"throttle_points": "0,1,2,len-1,len,len+1,len+2"}]
    return r


def replay(obj):
    return isolation.replay_case(obj["case"])
