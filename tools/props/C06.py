"""C06 — assembled machine code and data image run exactly like the interpreted source."""
import shutil

from harness import asmrun

ID = "C06"
MODULES = ["HeraProofs.Props.C06", "HeraProofs.Props.C06b", "HeraProofs.Props.C06c"]
GENERATED_DEPS = ["Ops.lean", "Exec.lean", "Tables.lean"]
EXPLANATION = ("Theorem chain: C01_step (every interpreted instruction has its architected effect), C05_decode_sound (every emitted "
               "word decodes back to the operation), C06_exec_canon (the canonical operand form a decoder recovers executes identically), "
               "C06_wordStep_exec (the word machine executes decoded instructions by Spec.exec). End to end: translation validation on "
               "every run - the real `hera assemble --stdout` output (code words + data image) is executed by the independent word-level "
               "machine Spec.wordRun with the arithmetic decoder Spec.decode and compared (registers, flags, memory, halt status) with the "
               "real interpreter on generated terminating programs x --big-stack; deleting debugging operations must leave the assembler "
               "output byte-identical."
               ' At the level of the architecture the whole-program statement is a theorem (C06b): C06_image_step / C06_image_run - the word machine (fetch a word, decode it by the HERA table, execute) on the table words of ANY list of valid instructions behaves, step for step and for every number of steps, like executing the instructions themselves (via C05_decode_encode and C06_exec_canon).')
ASSUMPTIONS = ["whole-program statement decided by translation validation per generated program (not a theorem)",
               "the next-free cell that the data image places at data_start-1 (Hassem compatibility) is not compared",
               "programs that execute a point the architecture leaves open (MUL high-word c/v, aliased CALL/RETURN) are not comparable and skipped"]


def run(ctx):
    r = asmrun.check(ctx["seed"], 6000 if ctx["thorough"] else 120)
    r["distinct_nontrivial"] = r["distinct"]
    r["rule"] = ("generated terminating programs (straight-line, branches of every form, loops, calls, data statements incl. negative / >255 "
                 "values and strings with escapes, half with debugging ops) x --big-stack; each is assembled by the real CLI and executed on "
                 "the word machine")
    r["streams"] = {"asmrun": r["evaluations"]}
    r["samples"] = [{"feature_counts": r.get("distribution", {})}]
    return r


def replay(obj):
    case = obj["case"]
    d = asmrun.scratch_dir()
    try:
        problem, key = asmrun.run_case(case["text"], case.get("big_stack", False), d)
        if problem in (None, "skip"):
            return (asmrun.strip_oracle(case["text"], case.get("big_stack", False), d)
                    or asmrun.disassembly_oracle(case["text"], case.get("big_stack", False), d))
        return problem
    finally:
        shutil.rmtree(d, ignore_errors=True)
