"""C16 — includes splice text faithfully, cycles are caught, conditionals follow C rules."""
from harness import ifdefs, includes

ID = "C16"
MODULES = ["HeraProofs.Props.C16"]
GENERATED_DEPS = []
EXPLANATION = ("Theorem C16_ifdef (mutual structural induction over all well-nested conditional structures - any depth, symbols, #else "
               "presence, arbitrary text incl. non-HERA in dead branches): the keep-stack machine of evaluate_ifdefs keeps exactly what "
               "a C preprocessor with only HERA_PY defined keeps. The model (regex recogniser + keep-stack machine) is corresponded with "
               "the real evaluate_ifdefs on rendered and mutated structures. Includes: generated include graphs in nested directories "
               "(DAGs with diamonds and repeated includes, cycles of every length, ./ and ../ paths, planted faults) through the real "
               "parser against textual splicing, cycle reporting and attribution of diagnostics.")
ASSUMPTIONS = ["the regular-expression stage (Ifdef.scan) is a hand recogniser corresponded with Python's re, not verified",
               "include handling is decided by the oracle on the real parser and file system (os.path.realpath / symlinks are not modelled)"]


def run(ctx):
    thorough, seed = ctx["thorough"], ctx["seed"]
    total = {"evaluations": 0, "disagreements": [], "violations": [], "streams": {}, "distinct_nontrivial": 0}
    for name, rr in (("ifdef", ifdefs.check(seed, 200000 if thorough else 4000)),
                     ("includes", includes.check(seed, 12000 if thorough else 250))):
        total["evaluations"] += rr["evaluations"]
        total["distinct_nontrivial"] += rr.get("distinct", 0)
        total["disagreements"] += rr["disagreements"]
        total["violations"] += rr["violations"]
        total["streams"][name] = rr["evaluations"]
    total["rule"] = ("conditional structures of depth 0..5 rendered with varying indentation / trailing blanks / junk, a third mutated; "
                     "include graphs of 2..5 files in 4 directories, a third cyclic, 40% with a planted fault")
    total["samples"] = [{"text": "#ifdef X\\n#ifdef HERA_PY\\nSET(R1,1)\\n#endif\\n#else\\nSET(R2,2)\\n#endif\\n"}]
    return total


def replay(obj):
    case = obj["case"]
    if obj.get("stream") == "ifdef":
        return ifdefs.replay_case(case)
    if obj.get("stream") == "includes":
        return includes.replay_case(case)
    return None
