"""C01 — every machine instruction has exactly its architected effect."""
from harness import isa

ID = "C01"
MODULES = ["HeraProofs.Props.C01"]
GENERATED_DEPS = ["Ops.lean", "Tables.lean", "Exec.lean"]
EXPLANATION = ("Theorems: for every architecture instruction, every operand tuple in range and every well-formed "
               "machine state, the translated Python execute (regenerated from hera/op.py, hera/vm.py, hera/utils.py "
               "on this run) returns a state whose BitVec abstraction is the one Spec.ISA.exec prescribes, is "
               "well-formed, and leaves all other VM attributes untouched. Correspondence: translated model vs "
               "op.execute on real VirtualMachine objects; oracle: Spec.exec vs op.execute.")
ASSUMPTIONS = ["the translated model is the code: validated by the isa stream on this run (no disagreement), not proved",
               "Spec/ISA.lean is the reading of HERA 2.4 used (DESIGN.md appendix A)"]


def run(ctx):
    n = 400000 if ctx["thorough"] else 40000
    cases = isa.gen_cases(ctx["seed"], n)
    total = {"evaluations": 0, "disagreements": [], "violations": [], "distribution": {}}
    keys = set()
    for k in range(0, len(cases), 20000):
        chunk = cases[k:k + 20000]
        r = isa.check(chunk)
        total["evaluations"] += r["evaluations"]
        total["disagreements"] += r["disagreements"]
        total["violations"] += r["violations"]
        for c, m in r["distribution"].items():
            total["distribution"][c] = total["distribution"].get(c, 0) + m
        for c in chunk:
            keys.add((c["cls"], tuple(c["args"]), tuple(c["pre"]["flags"]), tuple(c["pre"]["registers"])))
    total["distinct_nontrivial"] = len(keys)
    total["rule"] = ("every real instruction class x 32 flag settings x register aliasing patterns, then random "
                     "boundary-biased (class, operands, registers, flags, memory, pc); distinct = distinct "
                     "(class, operands, flags, register file); all are non-trivial (an instruction executes)")
    total["samples"] = [{"cls": c["cls"], "args": c["args"], "flags": c["pre"]["flags"],
                         "registers": c["pre"]["registers"]} for c in cases[:3]]
    total["streams"] = {"isa": total["evaluations"]}
    return total


def replay(obj):
    r = isa.check([obj["case"]])
    v = [x for x in r["violations"] if x["property"] == ID]
    return v[0]["what"] if v else None
