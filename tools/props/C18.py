"""C18 — the command line honours its contract for every argument vector."""
from harness import cli, initstr

ID = "C18"
MODULES = ["HeraProofs.Props.C18"]
GENERATED_DEPS = []
EXPLANATION = ("Theorems over the model of main.parse_args, for every scan state, value text and remaining arguments: "
               "C18_throttle_spellings / C18_init_spellings (`--throttle n` = `--throttle=n`, `--init s` = `--init=s`), "
               "C18_unknown_flag (anything flag-like that is not a known flag or a well-formed value form is the usage error, "
               "whatever precedes or follows), C18_after_dashes (after `--` every argument is a path), C18_throttle_value "
               "(accepted exactly for non-empty decimal digit strings). The model is corresponded with the real parse_args "
               "(classification, message, every field of the settings) on generated argument vectors; the contract oracle runs "
               "the real main() in-process on every vector with real input files: exit status in {0,1,3}, never an exception or "
               "traceback, usage errors write only to stderr and create nothing, program output on stdout and diagnostics / "
               "state dump on stderr, files written by assemble equal its --stdout output, malformed or unknown flags end "
               "with status 1.")
ASSUMPTIONS = ["hand model of parse_args (corresponded, not verified); ASCII argument vectors (str.isdigit modelled for ASCII)",
               "exit statuses, stream separation and output files are decided by the contract oracle on the real main(), not by "
               "a theorem: they depend on the file system and on sys.stdout / sys.stderr, which the model does not express",
               "files vs --stdout output are compared up to one trailing newline (print adds one, the .ldata writer does not)"]


def run(ctx):
    thorough, seed = ctx["thorough"], ctx["seed"]
    r = cli.check(seed, 100000 if thorough else 2000)
    r["distinct_nontrivial"] = r["distinct"]
    r["streams"] = {"cli": r["evaluations"]}
    # --init strings of every shape: an exception out of parse_init_string is a traceback on the command line
    ini = initstr.run(seed + 7, 20000 if thorough else 3000)
    r["violations"] += [v for v in ini.get("violations", []) if v.get("property") == "C18"]
    r["evaluations"] += ini.get("evaluations", 0)
    r["streams"]["initstr"] = ini.get("evaluations", 0)
    r["rule"] = ("argument vectors: half random mixtures of sub-commands, every flag, every value syntax of --throttle / --init (well- and "
                 "ill-formed), unknown flags, `--`, 0-2 paths; half compatible invocations per mode; paths = valid, invalid, empty, "
                 "missing, directory, non-ASCII, unwritable output; distinct = distinct vectors")
    r["samples"] = [{"argv": ["assemble", "--stdout", "--code", "data.hera"]}, {"argv": ["--throttle=abc", "ok.hera"]}]
    return r


def replay(obj):
    if obj.get("stream") == "initstr":
        import hera.main as M
        try:
            M.parse_init_string(obj["case"]["init"])
        except Exception as e:  # noqa
            return "parse_init_string raised " + type(e).__name__
        return None
    return cli.replay_case(obj["case"])
