"""C02 — the machine always stays a well-formed 16-bit HERA machine."""
import random

from harness import dbg, initstr, isa, proggen, progrun, pyint

ID = "C02"
MODULES = ["HeraProofs.Props.C02", "HeraProofs.Props.C02b"]
GENERATED_DEPS = ["Ops.lean", "Tables.lean", "Exec.lean"]
EXPLANATION = ("Theorems over the regenerated code: C01_step (every instruction keeps WF), C02_fetch/C02_exit_ends "
               "(guards regenerated from VirtualMachine.run: nothing is fetched outside the program and the run ends), "
               "C02_reset_WF + C02_init (--init), data statements, C02_run_WF (every point of every run of a checked "
               "program). Run-loop model corresponded by the prog stream; WF monitor after every executed operation of "
               "real runs. Debugger write paths (C02b): C02_assign_mem_WF (address and value through to_u16: WF for every value of "
               "the expression language), C02_assign_pc (negative refused), C02_assign_reg_WF (WF for every non-negative value), "
               "C02_assign_reg_negative (a negative value is stored as it is: the known finding KF-C02-1 stated exactly); the "
               "assignment commands of the debugger model are corresponded by the dbgmodel stream (C11-C13), and debugger write "
               "histories are watched by the WF monitor.")
ASSUMPTIONS = ["programs contain no user __eval (the Tiger library's own helpers are exercised by the monitor only)",
               "debugger histories: assignments proved (C02b) over Model/Debugger.lean's assignReg/assignMem/assignPc with right-hand sides in the range of C14_eval_range; `execute <op>` goes through the same Gen.exec as a run (C01_step); the shell's parsing of the command is oracle-covered",
               "code.length <= 65535 (CALL stores pc+1)"]
TRUSTED_EXTRA = ["hand model Model/Run.lean of VirtualMachine.run (shape of run checked by the generator; corresponded by stream prog)",
                 "hand model Model/Cli.lean of parse_init_string and PyStr.parseInt of int() (corresponded: initstr, pyint exhaustive to length 4)"]


def dbg_histories(seed, n):
    rng = random.Random(seed)
    violations = []
    evals = 0
    for k in range(n):
        text, feats = proggen.generate(seed * 7919 + k, wild=(k % 4 == 0), size=rng.choice([3, 6, 10]))
        opts = {}
        if k % 3 == 1:
            opts["big_stack"] = True
        if k % 5 == 2:
            opts["init"] = [(1, 7), (3, 65535)]
        shell, st = dbg.make_shell(text, opts)
        if shell is None:
            continue
        labels = [s for s, v in shell.debugger.symbol_table.items() if type(v).__name__ == "Label"]
        cmds = dbg.gen_write_history(rng, labels, text.count("\n"))
        w = isa.wf_violation(shell.debugger.vm)
        if w:
            violations.append({"property": "C02", "stream": "dbgwrites", "sig": "dbg:start",
                               "case": {"text": text, "opts": opts, "cmds": []}, "what": "debugger start-up: " + w})
            continue
        done = []
        for line in cmds:
            before = list(shell.debugger.vm.registers)
            out, errs, exc, cont = dbg.feed(shell, line, limit=5)
            done.append(line)
            evals += 1
            if exc and exc.startswith("Hang"):
                # generated programs (and programs whose state the history has changed) may loop for ever under
                # `continue`: no verdict about well-formedness from such a session
                break
            if exc:
                violations.append({"property": "C14", "stream": "dbgwrites", "sig": "dbg:exception:" + exc.split(":")[0],
                                   "case": {"text": text, "opts": opts, "cmds": list(done)},
                                   "what": "debugger command {!r} raised {}".format(line, exc)})
                break
            w = isa.wf_violation(shell.debugger.vm)
            if w:
                v = {"property": "C02", "stream": "dbgwrites", "sig": "dbg:wf:" + line.split()[0],
                     "case": {"text": text, "opts": opts, "cmds": list(done)},
                     "what": "after debugger command {!r}: {}".format(line, w)}
                if dbg.is_negative_register_assign(before, line, shell):
                    v["key"] = "dbg-assign-register-negative"
                violations.append(v)
                break
    return {"evaluations": evals, "violations": violations}


def run(ctx):
    seed, thorough = ctx["seed"], ctx["thorough"]
    total = {"evaluations": 0, "disagreements": [], "violations": [], "streams": {}, "distribution": {}}

    def add(name, r):
        total["evaluations"] += r.get("evaluations", 0)
        total["disagreements"] += r.get("disagreements", [])
        total["violations"] += r.get("violations", [])
        total["streams"][name] = r.get("evaluations", 0)

    cases = isa.gen_cases(seed + 11, 120000 if thorough else 12000)
    r = isa.check(cases, want_spec=False)
    add("isa", r)
    total["distribution"]["isa_classes"] = len(r["distribution"])
    items = progrun.gen_items(seed + 1, 3000 if thorough else 300) + progrun.boundary_data_items()
    r = progrun.check_programs(items)
    add("prog", r)
    total["distribution"]["prog"] = r["stats"]
    add("initstr", initstr.run(seed, 20000 if thorough else 3000))
    add("pyint", pyint.run(4 if thorough else 3))
    add("dbgwrites", dbg_histories(seed, 1500 if thorough else 150))
    feats = {}
    for it in items:
        for f in it["features"]:
            feats[f] = feats.get(f, 0) + 1
    total["distribution"]["prog_features"] = feats
    total["distinct_nontrivial"] = len({it["text"] for it in items}) + len(
        {(c["cls"], tuple(c["args"]), tuple(c["pre"]["registers"])) for c in cases})
    total["rule"] = ("isa: single instructions (WF monitor + model correspondence); prog: generated programs incl. wild control "
                     "flow leaving the program at both ends, x {big-stack, --init, warn-return-off}, WF monitor after every "
                     "step and run-loop model vs VirtualMachine.run; initstr: --init strings; dbgwrites: debugger histories over "
                     "assign/execute/on/off/goto/next/step/continue/restart/undo. distinct = distinct programs + distinct "
                     "(class, operands, registers)")
    total["samples"] = [{"program": items[0]["text"][:400], "opts": items[0]["opts"]}]
    return total


def replay(obj):
    case = obj["case"]
    stream = obj.get("stream")
    if stream == "isa":
        r = isa.check([case], want_spec=False)
        v = [x for x in r["violations"] if x["property"] == ID]
        return v[0]["what"] if v else None
    if stream == "prog":
        r = progrun.check_programs([case])
        v = [x for x in r["violations"] if x["property"] == ID]
        return v[0]["what"] if v else None
    if stream == "initstr":
        import hera.main as M
        res = M.parse_init_string(case["init"])
        return initstr.init_ok(res) if res is not None else None
    if stream == "dbgwrites":
        shell, st = dbg.make_shell(case["text"], case["opts"])
        if shell is None:
            return None
        for line in case["cmds"]:
            out, errs, exc, cont = dbg.feed(shell, line, limit=10)
            w = isa.wf_violation(shell.debugger.vm)
            if w:
                return "after {!r}: {}".format(line, w)
        return None
    return None
