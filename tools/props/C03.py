"""C03 — each pseudo-operation means what the manual says, clobbering only what it may."""
from harness import pseudo

ID = "C03"
MODULES = ["HeraProofs.Props.C03", "HeraProofs.Props.C03b"]
GENERATED_DEPS = ["Ops.lean", "Exec.lean", "Tables.lean"]
EXPLANATION = ("Theorems: C03_convert_* (the regenerated convert methods produce exactly these instruction lists, for all operands), "
               "C03_SET / MOVE / CMP / NEG / NOT / FLAGS / SETRF / CON / COFF / CBON / CCBOFF / HALT / NOP / BRlabel / CALLlabel (the expansion executed on the "
               "BitVec architecture has exactly the documented whole-operation effect Spec.pseudo, for all operands, flags and register "
               "contents); each instruction of an expansion is tied to the implementation by C01_step. Oracle: every pseudo-operation "
               "through the real parser, label substitution, convert and execute from chosen pre-states against Spec.pseudo.")
ASSUMPTIONS = ["NOT with Ra = Rt is documented as unsupported (the checker warns) and CALL(R13, label) has aliased operands (left open by "
               "the architecture): C03_NOT / C03_CALLlabel exclude exactly these operands; the oracle still runs them",
               "the list of instructions each theorem executes is tied to the regenerated convert by C03_convert_*"]


def run(ctx):
    r = pseudo.check(ctx["seed"], 300000 if ctx["thorough"] else 6000)
    r["distinct_nontrivial"] = r["distinct"]
    r["rule"] = ("(pseudo-op, operands, pre-state) with boundary-biased 16-bit immediates, all register choices incl. R0/Rt/PC_ret/FP/SP, "
                 "all 32 flag settings; every case executes a whole expansion")
    r["streams"] = {"pseudo": r["evaluations"]}
    r["samples"] = [{"op": "SET", "args": [1, -2]}, {"op": "BLE", "args": [300]}]
    return r


def replay(obj):
    import random
    case = obj["case"]
    from harness import isa, proto
    from harness.proto import w_list, w_vm
    res, why = pseudo.real_run(case["op"], case["args"], case["pre"])
    if res is None:
        return why
    vm, exc, n = res
    if exc:
        return "raised " + exc
    a = proto.run_herad(["pseudo {} {} {}".format(case["op"], w_list(case["args"]), w_vm(isa.mk_vm(case["pre"]), as_input=True))])[0]
    vals = [int(t) for t in a.split()[1:]]
    rflags = [int(vm.flag_sign), int(vm.flag_zero), int(vm.flag_overflow), int(vm.flag_carry), int(vm.flag_carry_block)]
    if list(vm.registers) != vals[:16] or rflags != vals[16:21] or vm.pc != vals[21] or int(vm.halted) != vals[22]:
        return "state differs from the documented effect"
    return None
