"""C08 — accepted programs never go wrong later."""
from harness import accepted, chk

ID = "C08"
MODULES = ["HeraProofs.Props.C08"]
GENERATED_DEPS = ["Tables.lean", "Ops.lean", "Exec.lean"]
EXPLANATION = ("Theorems: C08_table_widths (every documented operand range fits the bit field the regenerated BITV pattern reserves for it, "
               "decided on the literal tables), fits_* (the expansions of conforming SET / label branches / unconverted operations consist "
               "of operations that conform to their own signature with literal operands), together with C09_op_iff (what the checker "
               "accepts), C05_decode_sound (no truncation between operation and bits) and C02_run_WF (running never raises). Oracle: "
               "every accepted program of the operand grid, rule, boundary and generated streams is listed, assembled, run (throttled) and "
               "loaded into the debugger in its mode; every emitted word is re-decoded and compared with the operation.")
ASSUMPTIONS = ["programs with user __eval and with more than 65535 instructions are outside the theorems",
               "listing / obfuscating / assembling 'never raise' is decided by the oracle over the accepted-program streams"]


def run(ctx):
    thorough, seed = ctx["thorough"], ctx["seed"]
    r0, grid = chk.check_grid(thorough, seed)
    items = grid + accepted.boundary_items() + chk.rule_items() + chk.gen_prog_items(seed + 21, 1200 if thorough else 150)
    r = accepted.check(items)
    rr = accepted.check_reach()
    r["violations"] += rr["violations"]
    r["evaluations"] += rr["evaluations"]
    r["distinct_nontrivial"] = r["accepted"]
    r["rule"] = ("operand grid x modes, boundary programs, rule programs, generated programs; non-trivial = accepted by the checker and "
                 "therefore exercised through listing / assembling / running / debugger start-up")
    r["streams"] = {"accepted": r["evaluations"] - rr["evaluations"], "reach": rr["evaluations"]}
    r["distribution"] = {"accepted": r["accepted"], "rejected": r["evaluations"] - r["accepted"]}
    r["samples"] = [{"text": accepted.BOUNDARY_PROGRAMS[0], "mode": "assemble"}]
    return r


def replay(obj):
    case = obj["case"]
    if obj.get("stream") == "reach":
        rr = accepted.check_reach()
        v = [x for x in rr["violations"] if x["case"] == case]
        return v[0]["what"] if v else None
    ok, problem = accepted.exercise(case["text"], case.get("mode", ""), case.get("big_stack", False), case.get("no_debug_ops", False))
    return problem
