"""C05 — instruction encoding and decoding are exact inverses and follow the HERA table."""
from harness import enc

ID = "C05"
MODULES = ["HeraProofs.Props.C05", "HeraProofs.Props.C05b", "HeraProofs.Props.C05c", "HeraProofs.Props.C05d"]
GENERATED_DEPS = ["Ops.lean", "Tables.lean", "Exec.lean"]
EXPLANATION = ("Theorems: generic (all patterns, all words, no enumeration) round trips of the pattern matcher and "
               "substituter (Enc.subst_of_match, Enc.match_of_subst), side conditions decided on the regenerated BITV/P "
               "table (length 16, symbols, arity = number of parameters), C05_decode_sound: every word that disassembles "
               "re-assembles (through the regenerated assemble methods, INC/DEC +-1 included) to exactly that word; "
               "C05_range. The HERA table itself (C05b, over Spec.encode / Spec.decode): C05_decode_encode (the word of every "
               "valid instruction decodes to that instruction), C05_encode_injective (two different instructions never share "
               "a word, up to the two spellings of a byte operand), C05_encode_lt (every table word is 16 bits). The code is tied "
               "to the table by a theorem too (C05c): C05_assemble_is_table - for every valid instruction (all operands, no "
               "enumeration) the assemble method regenerated from hera/op.py, applied to the bit pattern regenerated from the "
               "class's BITV, returns exactly the two bytes of the HERA table word Spec.encode; hence C05_assemble_injective "
               "(the code never gives two different instructions one word) and C05_decode_assemble. The decoding side (C05d): "
               "C05_disassemble_is_table - whatever the disassembler model makes of a word is the operation of a valid instruction e, "
               "the word is e's table word and Spec.decode gives e for it (every matched operand lies within its bit field: "
               "matchGo_bound, generic in the pattern; field widths decided on the regenerated table). Both table functions are "
               "additionally compared with the real assembler / disassembler on all 63 505 instances and all 65 536 words.")
ASSUMPTIONS = ["'a word the table decodes is also decoded by the disassembler' (completeness of disassemble) is established by the "
               "exhaustive enumeration of all 65 536 words on every run, not by a Lean theorem; soundness of both directions is "
               "proved (C05_assemble_is_table, C05_disassemble_is_table) over the hand model of match_bitvector / "
               "substitute_bitvector / disassemble, which is corresponded exhaustively with the real functions"]
TRUSTED_EXTRA = ["hand model Model/Enc.lean of match_bitvector/substitute_bitvector/disassemble: exhaustive correspondence on all words and instances"]


def run(ctx):
    thorough = ctx["thorough"]
    total = {"evaluations": 0, "disagreements": [], "violations": [], "streams": {}}
    r, by_word = enc.check_words(thorough)
    for name, rr in (("words", r), ("instrs", enc.check_instances(by_word)),
                     ("asm-oor", enc.check_out_of_range(ctx["seed"], 20000 if thorough else 3000))):
        total["evaluations"] += rr["evaluations"]
        total["disagreements"] += rr["disagreements"]
        total["violations"] += rr["violations"]
        total["streams"][name] = rr["evaluations"]
    total["distinct_nontrivial"] = 65536 + total["streams"]["instrs"]
    total["exhaustive"] = True
    total["rule"] = ("all 65 536 words through disassemble (+ out-of-range values), every encodable class x every in-range "
                     "operand tuple through assemble / Spec.encode / decode / injectivity; distinct = words + instances")
    total["distribution"] = {"decoded_words": r["decoded"]}
    total["samples"] = [{"word": "0xa123", "decodes": str(by_word.get(0xa123))}, {"word": "0x3d60", "decodes": str(by_word.get(0x3d60))}]
    return total


def replay(obj):
    import hera.op as O
    case = obj["case"]
    if "word" in case:
        r, _ = None, None
        v = case["word"]
        try:
            op = O.disassemble(v)
        except Exception as e:  # noqa
            return None if type(e).__name__ == "HERAError" else "disassemble raised " + type(e).__name__
        if not (0 <= v < 65536):
            return "out-of-range value decoded as {}".format(op)
        b = op.assemble()
        w2 = (b[0] << 8) + b[1]
        if w2 != v or op.typecheck({}).errors:
            return "0x{:04x} -> {} -> 0x{:04x}".format(v, op, w2)
        return None
    if "cls" in case:
        c = getattr(O, case["cls"])
        op = enc.mk_op(c, case["args"])
        try:
            b = op.assemble()
        except Exception as e:  # noqa
            return "assemble raised " + type(e).__name__
        w = (b[0] << 8) + b[1]
        back = O.disassemble(w)
        if back.__class__ is not c or list(back.args) != enc.canon_args(c, case["args"]):
            return "{}{} -> 0x{:04x} -> {}".format(case["cls"], tuple(case["args"]), w, back)
        return None
    return None
