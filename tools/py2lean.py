#!/usr/bin/env python3
"""
py2lean -- translate the arithmetic / bit-level core of hera-py from the *live* Python
source (inspect.getsource on the objects Python actually runs) into Lean 4 definitions.

Typed shallow embedding (see DESIGN.md section 4.2):
  int  -> Int       bool -> Bool       str -> Str (= List Nat)       None -> Unit
  methods that touch the VirtualMachine  -> `M a`  (state + exception monad over `VM`)
  pure functions that can raise          -> `Except PyErr a`
  pure total functions                   -> plain terms

Statements are translated in *tail form*: the continuation of an `if` is duplicated into
both branches, so the output contains no mutable variables and no join points -- only
`let`, monadic bind and `if ... then ... else`.

A construct outside the supported subset, or an ill-typed flag assignment / boolean
operator (Python would silently store an int in a flag), is a `TranslationError` carrying
file:line.  The caller treats that as "the model can no longer be regenerated".
"""
import ast
import inspect
import sys
import textwrap


class TranslationError(Exception):
    pass


INT, BOOL, STR, UNIT = "Int", "Bool", "Str", "Unit"

# VM attributes and their Lean types (must mirror HeraModel/VM.lean; checked by the field audit)
VM_FIELDS = {
    "registers": "List Int",
    "pc": INT,
    "dc": INT,
    "flag_sign": BOOL,
    "flag_zero": BOOL,
    "flag_overflow": BOOL,
    "flag_carry": BOOL,
    "flag_carry_block": BOOL,
    "memory": "List Int",
    "input_buffer": STR,
    "input_pos": INT,
    "expected_returns": "List (Int × Int)",
    "halted": BOOL,
    "location": INT,
    "op_count": INT,
    "warned_for_SWI": BOOL,
    "warned_for_RTI": BOOL,
    "warned_for_overflow": BOOL,
    "warning_count": INT,
}
SETTINGS_FIELDS = {
    "init": "List (Int × Int)",
    "data_start": INT,
    "warn_return_on": BOOL,
    "warning_count": INT,
}


def const_int(node):
    """the value of an expression built from integer literals with + - * ** << >> // and unary minus, else None"""
    if isinstance(node, ast.Constant) and isinstance(node.value, int) and not isinstance(node.value, bool):
        return node.value
    if isinstance(node, ast.UnaryOp) and isinstance(node.op, ast.USub):
        v = const_int(node.operand)
        return None if v is None else -v
    if isinstance(node, ast.BinOp):
        a, b = const_int(node.left), const_int(node.right)
        if a is None or b is None:
            return None
        try:
            if isinstance(node.op, ast.Add):
                return a + b
            if isinstance(node.op, ast.Sub):
                return a - b
            if isinstance(node.op, ast.Mult):
                return a * b
            if isinstance(node.op, ast.Pow) and 0 <= b <= 64:
                return a ** b
            if isinstance(node.op, ast.LShift) and 0 <= b <= 64:
                return a << b
            if isinstance(node.op, ast.RShift) and 0 <= b <= 64:
                return a >> b
            if isinstance(node.op, ast.FloorDiv) and b != 0:
                return a // b
        except Exception:  # noqa
            return None
    return None


class Sig:
    """Signature of an already translated function."""

    def __init__(self, lean_name, params, ret, kind, mutates=False):
        self.lean_name = lean_name
        self.params = params  # list of lean types
        self.ret = ret
        self.kind = kind  # 'P' | 'E' | 'M'
        self.mutates = mutates


class FnTranslator:
    """Translate one Python function definition."""

    def __init__(self, tr, fndef, *, lean_name, filename, first_line, vm_name=None,
                 params=None, arg_types=None, self_dispatch=None, super_resolver=None,
                 cls=None, tok_mode=False, concrete=None):
        self.tr = tr
        self.fn = fndef
        self.lean_name = lean_name
        self.filename = filename
        self.first_line = first_line
        self.vm_name = vm_name  # python identifier that denotes the VM (or None)
        self.params = params or []  # [(pyname, leantype)]
        self.arg_types = arg_types  # types of self.args[i], or None
        self.self_dispatch = self_dispatch or {}  # method name -> Sig (parameter)
        self.super_resolver = super_resolver
        self.cls = cls
        self.tok_mode = tok_mode
        self.concrete = concrete
        self.kind = "M" if vm_name else "P"
        self.tmp = 0
        self.mutates = False
        self.used_dispatch = []
        self.ret_type = None

    # -- helpers -----------------------------------------------------------------
    def err(self, node, msg):
        line = getattr(node, "lineno", 0) + self.first_line - 1
        raise TranslationError("{}:{}: {} [{}]".format(self.filename, line, msg, self.lean_name))

    def fresh(self, base="t"):
        self.tmp += 1
        return "{}_{}".format(base, self.tmp)

    def need_effects(self, node):
        if self.kind == "P":
            raise NeedKind("E")

    # -- expressions -------------------------------------------------------------
    # expr(e, env, pre) -> (term, type); may append binding lines to `pre`
    def truthy(self, e, env, pre):
        t, ty = self.expr(e, env, pre)
        if ty == BOOL:
            return t
        if ty == INT:
            return "(decide ({} ≠ 0))".format(t)
        if ty.startswith("List") or ty == STR:
            return "(!({}).isEmpty)".format(t)
        self.err(e, "cannot take truth value of type " + ty)

    def expr(self, e, env, pre):
        if isinstance(e, ast.Constant):
            v = e.value
            if isinstance(v, bool):
                return ("true" if v else "false", BOOL)
            if isinstance(v, int):
                return ("({} : Int)".format(v), INT)
            if isinstance(v, str):
                return (lean_str(v), STR)
            if v is None:
                return ("()", UNIT)
            self.err(e, "unsupported constant")
        if isinstance(e, ast.Name):
            if e.id in env:
                return (env[e.id][0], env[e.id][1])
            self.err(e, "unknown name " + e.id)
        if isinstance(e, ast.Attribute):
            return self.attribute(e, env, pre)
        if isinstance(e, ast.BinOp):
            return self.binop(e, env, pre)
        if isinstance(e, ast.UnaryOp):
            if isinstance(e.op, ast.Not):
                t = self.truthy(e.operand, env, pre)
                return ("(!{})".format(t), BOOL)
            t, ty = self.expr(e.operand, env, pre)
            if isinstance(e.op, ast.USub) and ty == INT:
                return ("(-{})".format(t), INT)
            self.err(e, "unsupported unary operator")
        if isinstance(e, ast.BoolOp):
            parts = [self.expr(v, env, pre) for v in e.values]
            if not all(ty == BOOL for _, ty in parts):
                self.err(e, "ILL-TYPED boolean operator: operands of `{}` have types {} "
                         "(Python would return an operand, not a bool)".format(
                             ast.unparse(e), [ty for _, ty in parts]))
            op = " && " if isinstance(e.op, ast.And) else " || "
            return ("(" + op.join(t for t, _ in parts) + ")", BOOL)
        if isinstance(e, ast.Compare):
            return self.compare(e, env, pre)
        if isinstance(e, ast.IfExp):
            c = self.truthy(e.test, env, pre)
            # branches must be effect free
            pa, pb = [], []
            a, at = self.expr(e.body, env, pa)
            b, bt = self.expr(e.orelse, env, pb)
            if pa or pb:
                self.err(e, "effects inside conditional expression")
            if at != bt:
                self.err(e, "conditional expression branches have types {} / {}".format(at, bt))
            return ("(if {} then {} else {})".format(c, a, b), at)
        if isinstance(e, ast.Call):
            return self.call(e, env, pre)
        if isinstance(e, ast.Tuple):
            parts = [self.expr(v, env, pre) for v in e.elts]
            return ("(" + ", ".join(t for t, _ in parts) + ")",
                    "(" + " × ".join(ty for _, ty in parts) + ")")
        if isinstance(e, ast.Subscript):
            return self.subscript(e, env, pre)
        if isinstance(e, ast.List):
            parts = [self.expr(v, env, pre) for v in e.elts]
            tys = {ty for _, ty in parts}
            if len(tys) > 1:
                self.err(e, "heterogeneous list")
            ety = tys.pop() if tys else INT
            return ("[" + ", ".join(t for t, _ in parts) + "]", "List " + ety)
        self.err(e, "unsupported expression " + type(e).__name__)

    def is_vm(self, node):
        return isinstance(node, ast.Name) and node.id == self.vm_name

    def attribute(self, e, env, pre):
        if self.is_vm(e.value):
            if e.attr in VM_FIELDS:
                return ("vm.{}".format(e.attr), VM_FIELDS[e.attr])
            self.err(e, "unknown VirtualMachine attribute " + e.attr)
        if (isinstance(e.value, ast.Attribute) and self.is_vm(e.value.value)
                and e.value.attr == "settings"):
            if e.attr in SETTINGS_FIELDS:
                return ("vm.settings.{}".format(e.attr), SETTINGS_FIELDS[e.attr])
            self.err(e, "unknown Settings attribute " + e.attr)
        if isinstance(e.value, ast.Name) and e.value.id == "self" and e.attr == "name" and self.cls:
            return (lean_str(self.cls), STR)
        if isinstance(e.value, ast.Name) and e.value.id == "self" and self.concrete == "*generic*" and e.attr in ("BITV", "args"):
            return ("self_" + e.attr, "List Char" if e.attr == "BITV" else "List Int")
        if isinstance(e.value, ast.Name) and e.value.id == "self" and e.attr == "BITV" and self.concrete:
            return ("(Cls.BITV .{})".format(self.concrete), "List Char")
        if (isinstance(e.value, ast.Name) and e.value.id == "self" and e.attr == "args"
                and self.arg_types is not None and all(t == INT for t in self.arg_types)):
            return ("[" + ", ".join("a{}".format(i) for i in range(len(self.arg_types))) + "]", "List Int")
        self.err(e, "unsupported attribute " + ast.unparse(e))

    def binop(self, e, env, pre):
        l, lt = self.expr(e.left, env, pre)
        r, rt = self.expr(e.right, env, pre)
        op = e.op
        # the right operand as an integer literal - also when it is written as a constant expression (2 ** 16, 0xFFFF + 1,
        # 1 << 16): `x % 2 ** 16` is the same operation as `x % 65536`
        lit = const_int(e.right)
        # constant folding for 2 ** k
        if isinstance(op, ast.Pow):
            if (isinstance(e.left, ast.Constant) and lit is not None and lit >= 0
                    and isinstance(e.left.value, int)):
                return ("({} : Int)".format(e.left.value ** lit), INT)
            self.err(e, "unsupported power expression")
        if isinstance(op, ast.BitXor) and lt == BOOL and rt == BOOL:
            return ("(xor {} {})".format(l, r), BOOL)
        if isinstance(op, ast.Mult) and lt.startswith("List") and rt == INT:
            # [x] * n
            if isinstance(e.left, ast.List) and len(e.left.elts) == 1:
                x, xt = self.expr(e.left.elts[0], env, pre)
                return ("(Py.listRepeat {} {})".format(x, r), "List " + xt)
            return ("(Py.listMul {} {})".format(l, r), lt)
        if isinstance(op, ast.Add) and lt.startswith("List") and rt == lt:
            return ("({} ++ {})".format(l, r), lt)
        if lt != INT or rt != INT:
            self.err(e, "operator {} on types {} and {} in `{}`".format(
                type(op).__name__, lt, rt, ast.unparse(e)))
        if isinstance(op, ast.Add):
            return ("({} + {})".format(l, r), INT)
        if isinstance(op, ast.Sub):
            return ("({} - {})".format(l, r), INT)
        if isinstance(op, ast.Mult):
            return ("({} * {})".format(l, r), INT)
        if isinstance(op, ast.BitAnd) and lit is not None and lit >= 0:
            m = lit
            if m & (m + 1) == 0:  # 2^k - 1
                return ("({} % {})".format(l, m + 1), INT)
            if m & (m - 1) == 0:  # single bit 2^k
                return ("(({} / {}) % 2 * {})".format(l, m, m), INT)
            # contiguous mask 2^a - 2^b
            low = m & -m
            if (m + low) & (m + low - 1) == 0:
                return ("({} % {} - {} % {})".format(l, m + low, l, low), INT)
            return ("(Py.and {} {})".format(l, r), INT)
        if isinstance(op, ast.BitAnd):
            return ("(Py.and {} {})".format(l, r), INT)
        if isinstance(op, ast.BitOr):
            return ("(Py.or {} {})".format(l, r), INT)
        if isinstance(op, ast.BitXor):
            return ("(Py.xor {} {})".format(l, r), INT)
        if isinstance(op, ast.LShift) and lit is not None and lit >= 0:
            return ("({} * {})".format(l, 2 ** lit), INT)
        if isinstance(op, ast.RShift) and lit is not None and lit >= 0:
            return ("({} / {})".format(l, 2 ** lit), INT)
        if isinstance(op, ast.Mod) and lit is not None and lit > 0:
            return ("({} % {})".format(l, lit), INT)
        if isinstance(op, ast.FloorDiv) and lit is not None and lit > 0:
            return ("({} / {})".format(l, lit), INT)
        if isinstance(op, (ast.FloorDiv, ast.Mod)):
            # general floor division / modulo: raises ZeroDivisionError
            self.need_effects(e)
            t = self.fresh()
            f = "Py.floordiv" if isinstance(op, ast.FloorDiv) else "Py.mod"
            pre.append(("bindE", t, "{} {} {}".format(f, l, r)))
            return (t, INT)
        self.err(e, "unsupported binary operator " + type(op).__name__)

    def compare(self, e, env, pre):
        terms = [self.expr(e.left, env, pre)] + [self.expr(c, env, pre) for c in e.comparators]
        out = []
        for i, op in enumerate(e.ops):
            (l, lt), (r, rt) = terms[i], terms[i + 1]
            if isinstance(op, (ast.Is, ast.IsNot)):
                self.err(e, "unsupported identity comparison")
            if lt != rt:
                self.err(e, "comparison between {} and {} in `{}`".format(lt, rt, ast.unparse(e)))
            if lt == BOOL:
                if isinstance(op, ast.Eq):
                    out.append("({} == {})".format(l, r))
                    continue
                if isinstance(op, ast.NotEq):
                    out.append("({} != {})".format(l, r))
                    continue
                self.err(e, "ordering on bool")
            sym = {ast.Lt: "<", ast.LtE: "≤", ast.Gt: ">", ast.GtE: "≥", ast.Eq: "=",
                   ast.NotEq: "≠"}.get(type(op))
            if sym is None:
                self.err(e, "unsupported comparison")
            if lt not in (INT, STR):
                self.err(e, "comparison on type " + lt)
            if lt == STR and sym not in ("=", "≠"):
                self.err(e, "ordering on str")
            out.append("(decide ({} {} {}))".format(l, sym, r))
        if len(out) == 1:
            return (out[0], BOOL)
        return ("(" + " && ".join(out) + ")", BOOL)

    def subscript(self, e, env, pre):
        # self.args[i]
        if (isinstance(e.value, ast.Attribute) and isinstance(e.value.value, ast.Name)
                and e.value.value.id == "self" and e.value.attr == "args"
                and self.arg_types is not None):
            i = const_index(e.slice)
            if i is None or not (0 <= i < len(self.arg_types)):
                self.err(e, "self.args index not a literal within P")
            return ("a{}".format(i), self.arg_types[i])
        base, bt = self.expr(e.value, env, pre)
        if isinstance(e.slice, ast.Slice):
            self.err(e, "slices unsupported")
        idx, it = self.expr(e.slice, env, pre)
        if bt.startswith("List ") and it == INT:
            self.need_effects(e)
            t = self.fresh()
            pre.append(("bindE", t, "Py.listGet {} {}".format(base, idx)))
            return (t, bt[5:])
        if bt == STR and it == INT:
            self.need_effects(e)
            t = self.fresh()
            pre.append(("bindE", t, "Py.listGet {} {}".format(base, idx)))
            return (t, "Char1")
        self.err(e, "unsupported subscript on " + bt)

    def call(self, e, env, pre):
        f = e.func
        # builtins
        if isinstance(f, ast.Name):
            name = f.id
            if name == "bool" and len(e.args) == 1:
                return (self.truthy(e.args[0], env, pre), BOOL)
            if name == "int" and len(e.args) == 1 and not e.keywords:
                t, ty = self.expr(e.args[0], env, pre)
                if ty == BOOL:
                    return ("(Bool.toInt {})".format(t), INT)
                if ty == INT:
                    return (t, INT)
                self.err(e, "int() of " + ty)
            if name == "len" and len(e.args) == 1:
                t, ty = self.expr(e.args[0], env, pre)
                if ty.startswith("List") or ty == STR:
                    return ("(Py.len {})".format(t), INT)
                self.err(e, "len() of " + ty)
            if name == "ord" and len(e.args) == 1:
                t, ty = self.expr(e.args[0], env, pre)
                if ty == "Char1":
                    return ("(({} : Nat) : Int)".format(t), INT)
                self.err(e, "ord() of " + ty)
            if name == "bytes" and len(e.args) == 1:
                t, ty = self.expr(e.args[0], env, pre)
                if ty != "List Int":
                    self.err(e, "bytes() of " + ty)
                self.need_effects(e)
                v = self.fresh()
                pre.append(("bindE", v, "Py.bytes {}".format(t)))
                return (v, "List Int")
            if name == "substitute_bitvector" and len(e.args) == 2 and not e.keywords:
                pt, pty = self.expr(e.args[0], env, pre)
                at, aty = self.expr(e.args[1], env, pre)
                if pty != "List Char" or aty != "List Int":
                    self.err(e, "substitute_bitvector({}, {})".format(pty, aty))
                self.need_effects(e)
                t = self.fresh()
                pre.append(("bindE", t, "Enc.substituteBitvector {} {}".format(pt, at)))
                return (t, "List Int")
            if name == "print":
                return self.prim_print(e, env, pre)
            if name in ("print_warning", "print_error"):
                return self.prim_message(e, env, pre, name)
            if name == "format_int" and len(e.args) == 1 and not e.keywords:
                t, ty = self.expr(e.args[0], env, pre)
                if ty != INT:
                    self.err(e, "format_int of " + ty)
                return ("(Py.format_int {})".format(t), STR)
            if name not in self.tr.sigs:
                self.tr.resolve(name)
            if name in self.tr.sigs:
                return self.call_sig(e, self.tr.sigs[name], e.args, env, pre)
            self.err(e, "call to unknown function " + name)
        if isinstance(f, ast.Attribute):
            # "...".format(...)
            if isinstance(f.value, ast.Constant) and isinstance(f.value.value, str) and f.attr == "format":
                parts = []
                for a in e.args:
                    t, ty = self.expr(a, env, pre)
                    if ty == INT:
                        parts.append("Py.strInt {}".format(t))
                    elif ty == STR:
                        parts.append(t)
                    else:
                        self.err(e, "format argument of type " + ty)
                return ("(Py.format {} [{}])".format(lean_str(f.value.value), ", ".join(parts)), STR)
            # vm.method(...)
            if self.is_vm(f.value):
                key = "VM." + f.attr
                if key in self.tr.sigs:
                    return self.call_sig(e, self.tr.sigs[key], e.args, env, pre, keywords=e.keywords)
                self.err(e, "call to unknown VirtualMachine method " + f.attr)
            # self.method(...)  (dynamic dispatch on the operation class)
            if isinstance(f.value, ast.Name) and f.value.id == "self" and self.cls:
                if f.attr in self.self_dispatch:
                    sig = self.self_dispatch[f.attr]
                    if f.attr not in self.used_dispatch:
                        self.used_dispatch.append(f.attr)
                    args = [a for a in e.args if not self.is_vm(a)]
                    return self.call_sig(e, sig, args, env, pre, drop_vm=False)
                self.err(e, "unsupported self method call " + f.attr)
            # super().method(vm)
            if (isinstance(f.value, ast.Call) and isinstance(f.value.func, ast.Name)
                    and f.value.func.id == "super" and self.super_resolver):
                sig = self.super_resolver(f.attr)
                if sig is None:
                    self.err(e, "cannot resolve super()." + f.attr)
                # pass our own a0.. arguments through
                args_terms = ["a{}".format(i) for i in range(len(self.arg_types or []))]
                return self.emit_call(e, sig, args_terms, pre)
            # vm.expected_returns.append(x) / .pop()
            if isinstance(f.value, ast.Attribute) and self.is_vm(f.value.value):
                fld = f.value.attr
                if fld in VM_FIELDS and VM_FIELDS[fld].startswith("List"):
                    ety = VM_FIELDS[fld][5:]
                    if f.attr == "append" and len(e.args) == 1:
                        x, xt = self.expr(e.args[0], env, pre)
                        if xt != ety:
                            self.err(e, "append of {} to list of {}".format(xt, ety))
                        pre.append(("set", "{{ vm with {} := vm.{} ++ [{}] }}".format(fld, fld, x)))
                        self.mutates = True
                        return ("()", UNIT)
                    if f.attr == "pop" and not e.args:
                        t = self.fresh()
                        pre.append(("bindE", t, "Py.listPop vm.{}".format(fld)))
                        pre.append(("set", "{{ vm with {} := {}.2 }}".format(fld, t)))
                        self.mutates = True
                        return ("{}.1".format(t), ety)
                    if f.attr == "extend" and len(e.args) == 1:
                        x, xt = self.expr(e.args[0], env, pre)
                        if xt != VM_FIELDS[fld]:
                            self.err(e, "extend with " + xt)
                        pre.append(("set", "{{ vm with {} := vm.{} ++ {} }}".format(fld, fld, x)))
                        self.mutates = True
                        return ("()", UNIT)
                    if f.attr == "copy" and not e.args:
                        return ("vm.{}".format(fld), VM_FIELDS[fld])
        self.err(e, "unsupported call `{}`".format(ast.unparse(e)))

    def call_sig(self, e, sig, args, env, pre, keywords=(), drop_vm=True):
        args = [a for a in args if not (drop_vm and self.is_vm(a))]
        kw = list(keywords)
        terms = []
        for a in args + [k.value for k in kw]:
            t, ty = self.expr(a, env, pre)
            terms.append((t, ty))
        if len(terms) != len(sig.params):
            self.err(e, "arity mismatch calling {} ({} vs {})".format(sig.lean_name, len(terms), len(sig.params)))
        for (t, ty), pt in zip(terms, sig.params):
            if ty != pt:
                self.err(e, "argument of type {} where {} expected in call to {}".format(ty, pt, sig.lean_name))
        return self.emit_call(e, sig, [t for t, _ in terms], pre)

    def emit_call(self, e, sig, terms, pre):
        app = " ".join([sig.lean_name] + terms)
        if sig.kind == "P":
            return ("({})".format(app) if terms else app, sig.ret)
        self.need_effects(e)
        t = self.fresh()
        if sig.kind == "E":
            pre.append(("bindE", t, app))
        else:
            if self.kind != "M":
                self.err(e, "VM method called from a pure function")
            pre.append(("bindM", t, app))
            if sig.mutates:
                self.mutates = True
                pre.append(("refresh",))
        return (t, sig.ret)

    def loc_term(self, node, env, pre):
        """Translate a `loc=` argument: only vm.location / a name bound to it."""
        t, ty = self.expr(node, env, pre)
        if ty != INT:
            self.err(node, "loc argument of type " + ty)
        return t

    def prim_print(self, e, env, pre):
        end = "\n"
        for k in e.keywords:
            if k.arg == "end" and isinstance(k.value, ast.Constant) and isinstance(k.value.value, str):
                end = k.value.value
            else:
                self.err(e, "unsupported print keyword")
        if len(e.args) > 1:
            self.err(e, "print with several arguments")
        if e.args:
            t, ty = self.expr(e.args[0], env, pre)
            if ty == INT:
                t = "(Py.strInt {})".format(t)
            elif ty != STR:
                self.err(e, "print of " + ty)
        else:
            t = "[]"
        if self.kind != "M":
            self.err(e, "print outside a VM method")
        pre.append(("set", "vm.emit (.stdout ({} ++ {}))".format(t, lean_str(end))))
        self.mutates = True
        return ("()", UNIT)

    def prim_message(self, e, env, pre, name):
        # print_warning(settings, msg, loc=loc)
        if len(e.args) != 2 or len(e.keywords) != 1 or e.keywords[0].arg != "loc":
            self.err(e, "unsupported call shape for " + name)
        msg, mt = self.expr(e.args[1], env, pre)
        if mt != STR:
            self.err(e, "message of type " + mt)
        loc = self.loc_term(e.keywords[0].value, env, pre)
        ctor = ".warning" if name == "print_warning" else ".error"
        pre.append(("set", "vm.emit ({} {} {})".format(ctor, msg, loc)))
        self.mutates = True
        return ("()", UNIT)

    # -- statements --------------------------------------------------------------
    def flush(self, pre, lines, ind):
        """Emit accumulated bindings."""
        for p in pre:
            if p[0] == "bindE":
                if self.kind == "M":
                    lines.append("{}let {} ← M.lift ({})".format(ind, p[1], p[2]))
                else:
                    lines.append("{}let {} ← {}".format(ind, p[1], p[2]))
            elif p[0] == "bindM":
                lines.append("{}let {} ← {}".format(ind, p[1], p[2]))
            elif p[0] == "set":
                lines.append("{}M.set ({})".format(ind, p[1]))
                lines.append("{}let vm ← M.get".format(ind))
            elif p[0] == "refresh":
                lines.append("{}let vm ← M.get".format(ind))
        del pre[:]

    def block(self, stmts, env, ind):
        """Translate a statement list in tail position. Returns list of lines."""
        lines = []
        env = dict(env)
        for k, s in enumerate(stmts):
            rest = stmts[k + 1:]
            pre = []
            if isinstance(s, ast.Expr):
                if isinstance(s.value, ast.Constant):
                    continue  # docstring
                t, ty = self.expr(s.value, env, pre)
                self.flush(pre, lines, ind)
                continue
            if isinstance(s, ast.Pass):
                continue
            if isinstance(s, ast.Return):
                if s.value is None:
                    t, ty = "()", UNIT
                else:
                    t, ty = self.expr(s.value, env, pre)
                self.flush(pre, lines, ind)
                self.note_ret(s, ty)
                lines.append("{}{}".format(ind, self.pure(t)))
                return lines
            if isinstance(s, ast.Raise):
                exc = s.exc
                name = None
                if isinstance(exc, ast.Call) and isinstance(exc.func, ast.Name):
                    name = exc.func.id
                elif isinstance(exc, ast.Name):
                    name = exc.id
                if name not in ("HERAError", "NotImplementedError", "ValueError", "RuntimeError",
                                "TypeError", "IndexError"):
                    self.err(s, "unsupported raise")
                self.need_effects(s)
                lines.append("{}{}".format(ind, self.throw(name)))
                return lines
            if isinstance(s, ast.If):
                c = self.truthy(s.test, env, pre)
                self.flush(pre, lines, ind)
                a = self.block(list(s.body) + rest, env, ind + "  ")
                b = self.block(list(s.orelse) + rest, env, ind + "  ")
                lines.append("{}if {} then {}".format(ind, c, self.blk_open()))
                lines.extend(a)
                lines.append("{}else {}".format(ind, self.blk_open()))
                lines.extend(b)
                return lines
            if isinstance(s, ast.Assign):
                if len(s.targets) != 1:
                    self.err(s, "multiple assignment targets")
                self.assign(s.targets[0], s.value, env, pre, lines, ind, s)
                continue
            if isinstance(s, ast.AugAssign):
                binop = ast.BinOp(left=target_as_load(s.target), op=s.op, right=s.value)
                ast.copy_location(binop, s)
                ast.fix_missing_locations(binop)
                self.assign(s.target, binop, env, pre, lines, ind, s)
                continue
            if isinstance(s, ast.For):
                self.for_loop(s, env, pre, lines, ind)
                continue
            self.err(s, "unsupported statement " + type(s).__name__)
        # fell off the end: return None
        self.note_ret(stmts[-1] if stmts else self.fn, UNIT)
        lines.append("{}{}".format(ind, self.pure("()")))
        return lines

    def blk_open(self):
        return "do" if self.kind != "P" else ""

    def pure(self, t):
        return "pure {}".format(t) if self.kind != "P" else t

    def throw(self, name):
        if self.kind == "M":
            return "M.throw .{}".format(name)
        return "throw .{}".format(name)

    def note_ret(self, node, ty):
        if self.ret_type is None:
            self.ret_type = ty
        elif self.ret_type != ty:
            self.err(node, "inconsistent return types {} / {}".format(self.ret_type, ty))

    def assign(self, target, value, env, pre, lines, ind, stmt):
        # tuple unpacking of self.args
        if isinstance(target, ast.Tuple):
            if (isinstance(value, ast.Attribute) and isinstance(value.value, ast.Name)
                    and value.value.id == "self" and value.attr == "args" and self.arg_types is not None):
                if len(target.elts) != len(self.arg_types):
                    self.err(stmt, "unpacking {} names from {} args".format(len(target.elts), len(self.arg_types)))
                for i, elt in enumerate(target.elts):
                    if not isinstance(elt, ast.Name):
                        self.err(stmt, "unsupported unpack target")
                    env[elt.id] = ("a{}".format(i), self.arg_types[i])
                return
            t, ty = self.expr(value, env, pre)
            self.flush(pre, lines, ind)
            if not ty.startswith("("):
                self.err(stmt, "unpacking a non-tuple of type " + ty)
            comps = [c.strip() for c in ty[1:-1].split("×")]
            if len(comps) != len(target.elts):
                self.err(stmt, "unpack arity")
            tmp = self.fresh("u")
            lines.append("{}let {} := {}".format(ind, tmp, t))
            for i, elt in enumerate(target.elts):
                if not isinstance(elt, ast.Name):
                    self.err(stmt, "unsupported unpack target")
                proj = proj_term(tmp, i, len(comps))
                env[elt.id] = (proj, comps[i])
            return
        if isinstance(target, ast.Name):
            t, ty = self.expr(value, env, pre)
            self.flush(pre, lines, ind)
            name = "v_" + target.id
            lines.append("{}let {} : {} := {}".format(ind, name, lean_ty(ty), t))
            env[target.id] = (name, ty)
            return
        if isinstance(target, ast.Attribute):
            # vm.field = e   /  vm.settings.field = e
            if self.is_vm(target.value) and target.attr in VM_FIELDS:
                want = VM_FIELDS[target.attr]
                if target.attr == "location" and isinstance(value, ast.Constant) and value.value is None:
                    t, ty = "(-1 : Int)", INT
                elif isinstance(value, ast.List) and not value.elts and want.startswith("List "):
                    t, ty = "[]", want
                else:
                    t, ty = self.expr(value, env, pre)
                if ty != want:
                    self.err(stmt, "ILL-TYPED: vm.{} : {} assigned {} expression `{}`".format(
                        target.attr, want, ty, ast.unparse(value)))
                pre.append(("set", "{{ vm with {} := {} }}".format(target.attr, t)))
                self.mutates = True
                self.flush(pre, lines, ind)
                return
            if (isinstance(target.value, ast.Attribute) and self.is_vm(target.value.value)
                    and target.value.attr == "settings" and target.attr in SETTINGS_FIELDS):
                want = SETTINGS_FIELDS[target.attr]
                t, ty = self.expr(value, env, pre)
                if ty != want:
                    self.err(stmt, "ILL-TYPED: settings.{} : {} assigned {}".format(target.attr, want, ty))
                pre.append(("set", "{{ vm with settings := {{ vm.settings with {} := {} }} }}".format(target.attr, t)))
                self.mutates = True
                self.flush(pre, lines, ind)
                return
            self.err(stmt, "unsupported assignment target " + ast.unparse(target))
        if isinstance(target, ast.Subscript):
            # vm.list[i] = v
            if (isinstance(target.value, ast.Attribute) and self.is_vm(target.value.value)
                    and VM_FIELDS.get(target.value.attr, "").startswith("List ")):
                fld = target.value.attr
                ety = VM_FIELDS[fld][5:]
                i, it = self.expr(target.slice, env, pre)
                v, vt = self.expr(value, env, pre)
                if it != INT or vt != ety:
                    self.err(stmt, "ILL-TYPED list store: index {} value {}".format(it, vt))
                t = self.fresh()
                pre.append(("bindE", t, "Py.listSet vm.{} {} {}".format(fld, i, v)))
                pre.append(("set", "{{ vm with {} := {} }}".format(fld, t)))
                self.mutates = True
                self.flush(pre, lines, ind)
                return
        self.err(stmt, "unsupported assignment target " + ast.unparse(target))

    def for_loop(self, s, env, pre, lines, ind):
        # for c in <Str>: body with effects, no local rebinding visible afterwards
        tuple_target = None
        if isinstance(s.target, ast.Tuple) and all(isinstance(e, ast.Name) for e in s.target.elts):
            tuple_target = [e.id for e in s.target.elts]
            s = ast.For(target=ast.Name(id="_".join(tuple_target), ctx=ast.Store()), iter=s.iter, body=s.body,
                        orelse=s.orelse, lineno=s.lineno, col_offset=s.col_offset)
        if s.orelse or not isinstance(s.target, ast.Name):
            self.err(s, "unsupported for loop")
        it, ity = self.expr(s.iter, env, pre)
        self.flush(pre, lines, ind)
        if ity == STR:
            ety = "Char1"
        elif ity.startswith("List "):
            ety = ity[5:]
        else:
            self.err(s, "iteration over " + ity)
        if self.kind != "M":
            return self.pure_for(s, it, ety, env, lines, ind)
        var = "v_" + s.target.id
        env2 = dict(env)
        env2[s.target.id] = (var, ety)
        if tuple_target is not None:
            if not ety.startswith("("):
                self.err(s, "tuple target over elements of type " + ety)
            comps = [c.strip() for c in ety[1:-1].split("×")]
            if len(comps) != len(tuple_target):
                self.err(s, "tuple target arity")
            for i, name in enumerate(tuple_target):
                env2[name] = (proj_term(var, i, len(comps)), comps[i])
        saved = self.ret_type
        self.ret_type = None
        body = self.block(list(s.body), env2, ind + "    ")
        if self.ret_type != UNIT:
            self.err(s, "return inside for loop")
        self.ret_type = saved
        lines.append("{}M.forM {} (fun {} => do".format(ind, it, var))
        lines.append("{}    let vm ← M.get".format(ind))
        lines.extend(body)
        lines.append("{}  )".format(ind))
        lines.append("{}let vm ← M.get".format(ind))
        self.mutates = True

    def pure_for(self, s, it, ety, env, lines, ind):
        """`for x in it:` whose body only appends to local lists: a left fold per list."""
        var = "v_" + s.target.id
        env2 = dict(env)
        env2[s.target.id] = (var, ety)
        appends = {}
        order = []
        for st in s.body:
            ok = (isinstance(st, ast.Expr) and isinstance(st.value, ast.Call)
                  and isinstance(st.value.func, ast.Attribute) and st.value.func.attr == "append"
                  and isinstance(st.value.func.value, ast.Name) and len(st.value.args) == 1)
            if not ok:
                self.err(st, "unsupported statement in a pure for loop")
            name = st.value.func.value.id
            if name not in env or not env[name][1].startswith("List "):
                self.err(st, "append to something that is not a local list")
            pre = []
            t, ty = self.expr(st.value.args[0], env2, pre)
            if pre or ty != env[name][1][5:]:
                self.err(st, "append of {} to {}".format(ty, env[name][1]))
            if name not in appends:
                appends[name] = []
                order.append(name)
            appends[name].append(t)
        for name in order:
            old, lty = env[name]
            new = "v_{}_{}".format(name, self.fresh("l"))
            lines.append("{}let {} : {} := ({}).foldl (fun acc {} => acc ++ [{}]) {}".format(
                ind, new, lty, it, var, ", ".join(appends[name]), old))
            env[name] = (new, lty)

    # -- whole function ------------------------------------------------------------
    def translate(self):
        env = {}
        for py, ty in self.params:
            env[py] = (py if py != "self" else "self_", ty)
        while True:
            try:
                self.tmp = 0
                self.ret_type = None
                self.mutates = False
                self.used_dispatch = []
                ind = "  "
                lines = []
                if self.kind == "M":
                    lines.append(ind + "let vm ← M.get")
                lines += self.block(list(self.fn.body), env, ind)
                break
            except NeedKind as k:
                self.kind = k.kind
        return lines


class NeedKind(Exception):
    def __init__(self, kind):
        self.kind = kind


def target_as_load(t):
    import copy
    t2 = copy.deepcopy(t)
    for n in ast.walk(t2):
        if hasattr(n, "ctx"):
            n.ctx = ast.Load()
    return t2


def const_index(node):
    if isinstance(node, ast.Constant) and isinstance(node.value, int):
        return node.value
    return None


def proj_term(tmp, i, n):
    if n == 2:
        return "{}.{}".format(tmp, i + 1)
    # right-nested tuples
    t = tmp
    for _ in range(i):
        t += ".2"
    if i < n - 1:
        t += ".1"
    return t


def lean_ty(ty):
    if ty == "Char1":
        return "Nat"
    return ty


def lean_str(s):
    """A Python str as a Lean `Str` literal (list of code points)."""
    return "[" + ", ".join(str(ord(c)) for c in s) + "]"


def get_fn(obj):
    """Return (FunctionDef, filename, firstline) for a Python function object."""
    src = inspect.getsource(obj)
    fname = inspect.getsourcefile(obj)
    _, first = inspect.getsourcelines(obj)
    tree = ast.parse(textwrap.dedent(src))
    fn = tree.body[0]
    if not isinstance(fn, ast.FunctionDef):
        raise TranslationError("{}:{}: not a function definition".format(fname, first))
    return fn, fname, first
