#!/usr/bin/env python3
"""usage: tools/register.py Cxx "<level text>" "<level note>" "<technique>" [design_ref] — add/replace a check entry in MANIFEST.json"""
import json, sys
pid, text, note, tech = sys.argv[1:5]
ref = sys.argv[5] if len(sys.argv) > 5 else "DESIGN.md section 7 " + pid
m = json.load(open("MANIFEST.json"))
entry = {
    "property_id": pid, "quick_cmd": "tools/check {} quick".format(pid), "thorough_cmd": "tools/check {} thorough".format(pid),
    "evidence_file": "evidence/{}.json".format(pid), "replay_cmd_template": "tools/check --replay {path}", "engine": "lean4-proof",
    "level_claimed": {"category": "proof", "text": text, "design_ref": ref}, "level_note": note, "technique": tech}
m["checks"] = [c for c in m["checks"] if c["property_id"] != pid] + [entry]
m["checks"].sort(key=lambda c: c["property_id"])
m["not_applicable"] = [n for n in m["not_applicable"] if n["property_id"] != pid]
json.dump(m, open("MANIFEST.json", "w"), indent=1)
print("registered", pid, "| checks:", [c["property_id"] for c in m["checks"]])
