"""
Extraction of loop-free routines of the built-in Tiger standard library (register convention) as lists of
architecture instructions for the Lean proofs of C19 (`Generated/Stdlib.lean`).

The library text of hera/stdlib.py is loaded through the real loader (`#include <Tiger-stdlib-reg-data.hera>` and `#include <Tiger-stdlib-reg.hera>` as
the whole program, run mode), so what is emitted is what `check()` put into `program.code`: real operations after pseudo-op
expansion, with labels resolved. A routine extends from its label to the next label that is not one of its own
internal labels. Anything that is not an architecture instruction (a debugging operation, `__eval`) makes the routine
untranslatable.
"""
import io
import contextlib

ROUTINES = ["not", "size", "ord", "malloc"]          # register convention (prefix r_)
STACK_ROUTINES = ["size", "ord", "not", "memcpy"]     # stack convention (prefix s_)
# routines whose label is not their name: name -> (label, prefixes of the labels inside the routine)
ALIASES = {"memcpy": ("tstdlib_label_local_memcpy_reg", ("tstdlib_label_memcpy_",))}
INTERNAL_PREFIXES = ("tstdlib_label_", "fsheap_", "malloc_", "substring_")
DATA_LABELS = ["first_space_for_fsheap", "last_space_for_fsheap"]

ALU3 = {"AND": "and", "OR": "or", "ADD": "add", "SUB": "sub", "MUL": "mul", "XOR": "xor"}
SHIFT = {"LSL": "lsl", "LSR": "lsr", "LSL8": "lsl8", "LSR8": "lsr8", "ASL": "asl", "ASR": "asr"}
CONDS = {"BR": "always", "BL": "l", "BGE": "ge", "BLE": "le", "BG": "g", "BULE": "ule", "BUG": "ug", "BZ": "z", "BNZ": "nz", "BC": "c",
         "BNC": "nc", "BS": "s", "BNS": "ns", "BV": "v", "BNV": "nv"}


class Untranslatable(Exception):
    pass


def lit(v):
    v = int(v)
    return "({})".format(v) if v < 0 else str(v)


def instr_of(op):
    n, a = op.name, list(op.args)
    if not all(isinstance(x, int) for x in a):
        raise Untranslatable("operand of {} is not an integer".format(n))
    if n == "SETLO" and len(a) == 2:
        return ".setlo {} {}".format(a[0], lit(a[1]))
    if n == "SETHI" and len(a) == 2:
        return ".sethi {} {}".format(a[0], lit(a[1]))
    if n in ALU3 and len(a) == 3:
        return ".alu3 .{} {} {} {}".format(ALU3[n], *a)
    if n in ("INC", "DEC") and len(a) == 2:
        return ".{} {} {}".format(n.lower(), a[0], lit(a[1]))
    if n in SHIFT and len(a) == 2:
        return ".shift .{} {} {}".format(SHIFT[n], *a)
    if n in ("SAVEF", "RSTRF") and len(a) == 1:
        return ".{} {}".format(n.lower(), a[0])
    if n in ("FON", "FOFF", "FSET5", "FSET4") and len(a) == 1:
        return ".{} {}".format(n.lower(), lit(a[0]))
    if n in ("LOAD", "STORE") and len(a) == 3:
        return ".{} {} {} {}".format(n.lower(), a[0], lit(a[1]), a[2])
    if n in CONDS and len(a) == 1:
        return ".br .{} {}".format(CONDS[n], a[0])
    if n.endswith("R") and n[:-1] in CONDS and len(a) == 1:
        return ".brr .{} {}".format(CONDS[n[:-1]], lit(a[0]))
    if n == "CALL" and len(a) == 2:
        return ".call {} {}".format(*a)
    if n == "RETURN" and len(a) == 2:
        return ".ret {} {}".format(*a)
    raise Untranslatable("{} is not an architecture instruction".format(n))


def cls_name(op):
    import hera.op as O
    names = [k for k, v in O.name_to_class.items() if v is type(op)]
    return type(op).__name__ if not names else type(op).__name__


def load_library(conv="reg"):
    from hera.loader import load_program
    from hera.data import Settings
    st = Settings()
    st.color = False
    with contextlib.redirect_stderr(io.StringIO()), contextlib.redirect_stdout(io.StringIO()):
        try:
            prog = load_program("#include <Tiger-stdlib-{0}-data.hera>\n#include <Tiger-stdlib-{0}.hera>\n".format(conv), st)
        except SystemExit:
            raise Untranslatable("the {}-convention library does not load".format(conv))
    return prog


def extract(conv="reg", routines=None):
    """{routine: (base, [op, ...])}, {data label: value}"""
    from hera.data import Label
    prog = load_library(conv)
    table = prog.symbol_table
    code_labels = sorted((int(v), k) for k, v in table.items() if isinstance(v, Label))
    out = {}
    for r in (ROUTINES if routines is None else routines):
        lab, internal = ALIASES.get(r, (r, INTERNAL_PREFIXES))
        if lab not in table or not isinstance(table[lab], Label):
            raise Untranslatable("the library has no routine {}".format(r))
        base = int(table[lab])
        ends = [a for a, k in code_labels if a > base and not k.startswith(internal)]
        end = min(ends) if ends else len(prog.code)
        out[r] = (base, prog.code[base:end])
    data = {}
    for d in DATA_LABELS:
        if d not in table:
            raise Untranslatable("the library has no data label {}".format(d))
        data[d] = int(table[d])
    return out, data


def render():
    routines, data = extract()
    lines = ["import HeraModel.Spec.ISA", "import HeraModel.Generated.Tables", "import HeraModel.Model.Abs", "/-",
             "  GENERATED by tools/gen.py (gen_stdlib) from the library text of hera/stdlib.py as the real loader checks it:",
             "  loop-free routines of the Tiger library (r_: register convention, s_: stack convention) as architecture",
             "  instructions, with the address each starts at when the library is the whole program. Do not edit.", "-/", "namespace Hera", "namespace Gen", "namespace Stdlib",
             "open Spec", ""]
    for d, v in data.items():
        lines.append("def {} : Int := {}".format(d, v))
    lines.append("")
    stack_routines, _ = extract("stack", STACK_ROUTINES)
    named = [("r_" + r, v) for r, v in routines.items()] + [("s_" + r, v) for r, v in stack_routines.items()]
    for name, (base, ops) in named:
        lines.append("def {}_base : Int := {}".format(name, base))
        lines.append("def {}_code : List Instr := [".format(name))
        lines.append(",\n".join("  " + instr_of(op) for op in ops))
        lines.append("]")
        lines.append("/-- the same operations as (class name, operands) of the objects in `program.code` -/")
        lines.append("def {}_ops : List (String × List Int) := [".format(name))
        lines.append(",\n".join('  ("{}", [{}])'.format(type(op).__name__, ", ".join(str(int(x)) for x in op.args)) for op in ops))
        lines.append("]")
        lines.append("")
    lines += ["end Stdlib", "end Gen", "end Hera", ""]
    return "\n".join(lines)


if __name__ == "__main__":
    import sys
    sys.path.insert(0, "/repo")
    print(render())
